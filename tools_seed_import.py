"""Imports sub-agent mutants from /tmp/sa/cXX/out/mN into /verif/seeded/CXX-mN after re-verifying them in a scratch worktree:
patch applies, 93 tests pass with it, demo FAILs with it and PASSes without it."""
import json, os, shutil, subprocess, sys
ROOT = os.path.dirname(os.path.abspath(__file__))
W = '/tmp/mt/v'
def sh(c, **kw): return subprocess.run(c, shell=True, stdout=subprocess.PIPE, stderr=subprocess.STDOUT, text=True, **kw)
if not os.path.isdir(W):
    os.makedirs('/tmp/mt', exist_ok=True); print(sh('git -C /repo worktree add --detach %s HEAD' % W).stdout)
head = sh('git -C /repo rev-parse HEAD').stdout.strip()
OUT = sys.argv[1] if len(sys.argv) > 1 else 'out'      # 'out' = round 1, 'out2' = round 2 (harder: state, size, cooperating sites)
PREFIX = {'out': '', 'out2': 'r2', 'out3': 'r3', 'out4': 'r4', 'out5': 'r5', 'out6': 'r6'}[OUT]
for i in range(1, 21):
    pid = 'C%02d' % i
    for mname in sorted(os.listdir('/tmp/sa/c%02d/%s' % (i, OUT))) if os.path.isdir('/tmp/sa/c%02d/%s' % (i, OUT)) else []:
        src = '/tmp/sa/c%02d/%s/%s' % (i, OUT, mname)
        if not os.path.exists(src + '/patch.diff'):
            continue
        sh('git -C %s checkout -q --detach %s; git -C %s checkout -- .; git -C %s clean -fdq' % (W, head, W, W))
        env = 'PYTHONPATH=%s PYTHONHASHSEED=0' % W
        before = sh('cd %s && %s timeout 120 /venv/bin/python %s/demo.py' % (W, env, src))
        ap = sh('git -C %s apply %s/patch.diff' % (W, src))
        tests = sh('cd %s && /venv/bin/python -m pytest -q -p no:cacheprovider 2>&1 | tail -1' % W)
        after = sh('cd %s && %s timeout 120 /venv/bin/python %s/demo.py' % (W, env, src))
        ok = ap.returncode == 0 and '93 passed' in tests.stdout and before.returncode == 0 and after.returncode != 0
        print(pid, mname, 'apply', ap.returncode, '|', tests.stdout.strip(), '| demo before rc', before.returncode, 'after rc', after.returncode, '=>', 'KEEP' if ok else 'REJECT')
        if ok:
            dst = os.path.join(ROOT, 'seeded', '%s-%s%s' % (pid, PREFIX, mname))
            os.makedirs(dst, exist_ok=True)
            for f in ('patch.diff', 'demo.py', 'notes.md'):
                shutil.copy(os.path.join(src, f), os.path.join(dst, f))
            notes = open(os.path.join(src, 'notes.md'), encoding='utf-8').read()
            json.dump({'property': pid, 'origin': 'independent sub-agent given only the property text and a scratch worktree' + ({'': '', 'r2': ' (round 2: asked for changes that need state, size thresholds or cooperating sites)', 'r3': ' (round 3: asked for corners of the input and configuration space, entry points that should agree, feature interactions)', 'r4': ' (round 4: asked for value-specific regressions a strong random checker would still miss)', 'r5': ' (round 5: asked for changes of the kind that land through ordinary maintenance - near-refactorings, optimisations, lenient fixes, small features, neighbouring bug fixes, changed hand-over of data - that break the property on ordinary inputs)', 'r6': ' (round 6: told what a very strong checker already does and asked for what it would still miss: coincidences of three features, order, unusual but legitimate API use, subclass hooks, rarely set attributes, failure paths, second-time effects, details oracles rarely compare)'}[PREFIX]),
                       'needs_to_manifest': notes.strip()[:1500],
                       'verified': {'patch_applies_to': head, 'unit_tests_with_patch': tests.stdout.strip(),
                                    'demo_without_patch_rc': before.returncode, 'demo_with_patch_rc': after.returncode,
                                    'commands': ['git -C <worktree> apply patch.diff', '/venv/bin/python -m pytest -q -p no:cacheprovider',
                                                 'PYTHONPATH=<worktree> /venv/bin/python demo.py']}},
                      open(os.path.join(dst, 'meta.json'), 'w'), indent=1)
sh('git -C %s checkout -- .' % W)
