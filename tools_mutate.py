#!/venv/bin/python
"""Systematic first-order mutation sweep over the library (a sensitivity experiment for the checks, not a check).

For every mutation site in penman/*.py (comparison / boolean / arithmetic operator swaps, negated conditions, off-by-one
integer constants, True<->False, dropped statements, `break`<->`continue`, swapped call arguments are NOT generated - only the
operators below), the mutated file is written to a scratch worktree, the library's own tests are run, and if they pass the
quick checks that own that file are run (PV_FAILFAST=1, PV_SHRINK=0) until one reports a violation.

usage: tools_mutate.py <out.jsonl> [--files a.py,b.py] [--every K --offset J] [--worktree DIR] [--limit N]
Results: one JSON line per mutant {file, line, kind, text, tests: pass|fail, caught_by: Cxx|null}.
"""
import ast
import copy
import json
import os
import subprocess
import sys

REPO = os.environ.get('PV_REPO_SRC', '/repo')
HERE = os.path.dirname(os.path.abspath(__file__))

OWNERS = {
    '_lexer.py': ['C08', 'C07', 'C01', 'C19', 'C09'],
    '_parse.py': ['C07', 'C01', 'C19', 'C09'],
    '_format.py': ['C01', 'C19', 'C02', 'C06'],
    'tree.py': ['C10', 'C01', 'C05', 'C17'],
    'layout.py': ['C04', 'C02', 'C03', 'C06', 'C05', 'C14', 'C12'],
    'model.py': ['C13', 'C16', 'C05', 'C04', 'C11', 'C02'],
    'graph.py': ['C15', 'C03', 'C12', 'C17'],
    'transform.py': ['C12', 'C11', 'C13', 'C17', 'C20'],
    'codec.py': ['C09', 'C01', 'C19', 'C03'],
    'constant.py': ['C18'],
    '__main__.py': ['C20', 'C16', 'C17'],
    'surface.py': ['C04', 'C14', 'C10', 'C11'],
    'epigraph.py': ['C04', 'C06', 'C15'],
    'models/noop.py': ['C13', 'C04', 'C02'],
}

CMP = {ast.Eq: ast.NotEq, ast.NotEq: ast.Eq, ast.Lt: ast.LtE, ast.LtE: ast.Lt, ast.Gt: ast.GtE, ast.GtE: ast.Gt,
       ast.Is: ast.IsNot, ast.IsNot: ast.Is, ast.In: ast.NotIn, ast.NotIn: ast.In}
BIN = {ast.Add: ast.Sub, ast.Sub: ast.Add, ast.Mult: ast.FloorDiv, ast.BitOr: ast.BitAnd, ast.BitAnd: ast.BitOr}


def sites(tree):
    """yield (node_index_path, kind, lineno, apply(node) -> None) over a fresh deep copy each time"""
    nodes = list(ast.walk(tree))
    out = []
    for i, n in enumerate(nodes):
        ln = getattr(n, 'lineno', None)
        if isinstance(n, ast.Compare):
            for k, op in enumerate(n.ops):
                if type(op) in CMP:
                    out.append((i, 'cmp%d:%s->%s' % (k, type(op).__name__, CMP[type(op)].__name__), ln))
        elif isinstance(n, ast.BoolOp):
            out.append((i, 'bool:%s' % type(n.op).__name__, ln))
        elif isinstance(n, ast.BinOp) and type(n.op) in BIN:
            out.append((i, 'bin:%s' % type(n.op).__name__, ln))
        elif isinstance(n, ast.UnaryOp) and isinstance(n.op, ast.Not):
            out.append((i, 'not-removed', ln))
        elif isinstance(n, (ast.If, ast.While, ast.IfExp)):
            out.append((i, 'cond-negated', ln))
        elif isinstance(n, ast.Constant) and isinstance(n.value, bool):
            out.append((i, 'bool-const', ln))
        elif isinstance(n, ast.Constant) and isinstance(n.value, int) and not isinstance(n.value, bool):
            out.append((i, 'int+1', ln))
            if n.value != 0:
                out.append((i, 'int-1', ln))
        elif isinstance(n, ast.Break):
            out.append((i, 'break->continue', ln))
        elif isinstance(n, ast.Continue):
            out.append((i, 'continue->break', ln))
        elif isinstance(n, ast.Expr) and isinstance(n.value, ast.Call) and not _is_logging(n.value):
            out.append((i, 'stmt-dropped', ln))
        elif isinstance(n, (ast.Assign, ast.AugAssign)) and ln is not None and _inside_function(tree, n):
            if isinstance(n, ast.AugAssign):
                out.append((i, 'stmt-dropped', ln))
        elif isinstance(n, ast.Return) and n.value is not None and isinstance(n.value, (ast.Name, ast.Attribute, ast.Call, ast.Tuple)):
            pass
        elif isinstance(n, ast.Slice):
            if n.lower is not None or n.upper is not None:
                out.append((i, 'slice-shift', ln))
        elif isinstance(n, ast.Subscript) and isinstance(n.slice, ast.Constant) and isinstance(n.slice.value, int):
            pass    # covered by int+1 / int-1
    return out


def _is_logging(call):
    f = call.func
    return isinstance(f, ast.Attribute) and isinstance(f.value, ast.Name) and f.value.id in ('logger', 'logging', 'warnings')


_FUNC_CACHE = {}


def _inside_function(tree, node):
    key = id(tree)
    if key not in _FUNC_CACHE:
        inside = set()
        for f in ast.walk(tree):
            if isinstance(f, (ast.FunctionDef, ast.AsyncFunctionDef)):
                for x in ast.walk(f):
                    inside.add(id(x))
        _FUNC_CACHE[key] = inside
    return id(node) in _FUNC_CACHE[key]


def apply(tree, idx, kind):
    t = copy.deepcopy(tree)
    n = list(ast.walk(t))[idx]
    if kind.startswith('cmp'):
        k = int(kind[3:kind.index(':')])
        n.ops[k] = CMP[type(n.ops[k])]()
    elif kind.startswith('bool:'):
        n.op = ast.Or() if isinstance(n.op, ast.And) else ast.And()
    elif kind.startswith('bin:'):
        n.op = BIN[type(n.op)]()
    elif kind == 'not-removed':
        _replace(t, n, n.operand)
    elif kind == 'cond-negated':
        n.test = ast.UnaryOp(op=ast.Not(), operand=n.test)
    elif kind == 'bool-const':
        n.value = not n.value
    elif kind == 'int+1':
        n.value = n.value + 1
    elif kind == 'int-1':
        n.value = n.value - 1
    elif kind == 'break->continue':
        _replace(t, n, ast.Continue())
    elif kind == 'continue->break':
        _replace(t, n, ast.Break())
    elif kind == 'stmt-dropped':
        _replace(t, n, ast.Pass())
    elif kind == 'slice-shift':
        if n.lower is not None:
            n.lower = ast.BinOp(left=n.lower, op=ast.Add(), right=ast.Constant(value=1))
        else:
            n.upper = ast.BinOp(left=n.upper, op=ast.Sub(), right=ast.Constant(value=1))
    ast.fix_missing_locations(t)
    return t


def _replace(tree, old, new):
    for parent in ast.walk(tree):
        for field, value in ast.iter_fields(parent):
            if value is old:
                setattr(parent, field, ast.copy_location(new, old))
                return
            if isinstance(value, list):
                for k, v in enumerate(value):
                    if v is old:
                        value[k] = ast.copy_location(new, old)
                        return


def sh(cmd, **kw):
    return subprocess.run(cmd, shell=True, stdout=subprocess.PIPE, stderr=subprocess.STDOUT, text=True, **kw)


def main():
    args = sys.argv[1:]
    out = args[0]
    opt = dict(zip(args[1::2], args[2::2]))
    W = opt.get('--worktree', '/tmp/mt/wm')
    every, offset = int(opt.get('--every', 1)), int(opt.get('--offset', 0))
    limit = int(opt.get('--limit', 10 ** 9))
    files = opt.get('--files', ','.join(OWNERS)).split(',')
    if not os.path.isdir(W):
        print(sh('git -C %s worktree add --detach %s HEAD' % (REPO, W)).stdout)
    sh('git -C %s checkout -q -- .' % W)
    done = set()
    if os.path.exists(out):
        for l in open(out):
            d = json.loads(l)
            done.add((d['file'], d['idx'], d['kind']))
    env = dict(os.environ, PV_REPO=W, PV_SHRINK='0', PV_FAILFAST='1', PV_EVIDENCE_DIR=W + '.ev', PV_OUT=W + '.out')
    count = 0
    allsites = []
    for fn in files:
        path = os.path.join(W, 'penman', fn)
        src = open(os.path.join(REPO, 'penman', fn), encoding='utf-8').read()
        tree = ast.parse(src)
        for idx, kind, ln in sites(tree):
            allsites.append((fn, idx, kind, ln))
    for j, (fn, idx, kind, ln) in enumerate(allsites):
        if j % every != offset or (fn, idx, kind) in done:
            continue
        if count >= limit:
            break
        count += 1
        path = os.path.join(W, 'penman', fn)
        src = open(os.path.join(REPO, 'penman', fn), encoding='utf-8').read()
        tree = ast.parse(src)
        try:
            mt = apply(tree, idx, kind)
            new = ast.unparse(mt)
            compile(new, fn, 'exec')
        except Exception as e:
            continue
        if new == ast.unparse(tree):
            continue
        line = src.split('\n')[ln - 1].strip() if ln else ''
        open(path, 'w', encoding='utf-8').write(new + '\n')
        rec = {'file': fn, 'idx': idx, 'kind': kind, 'line': ln, 'text': line}
        t = sh('cd %s && timeout 300 /venv/bin/python -m pytest -x -q -p no:cacheprovider 2>&1 | tail -1' % W)
        if ' passed' in t.stdout and 'failed' not in t.stdout and 'error' not in t.stdout:
            rec['tests'] = 'pass'
            rec['caught_by'] = None
            for c in OWNERS[fn]:
                p = subprocess.run([os.path.join(HERE, 'check'), c], env=env, stdout=subprocess.PIPE, stderr=subprocess.STDOUT, text=True, cwd=HERE)
                if p.returncode == 1 and 'VIOLATION' in p.stdout:
                    rec['caught_by'] = c
                    break
                if p.returncode not in (0, 1):
                    rec['caught_by'] = c + ':harness-error'
                    rec['note'] = p.stdout[-300:]
                    break
        else:
            rec['tests'] = 'fail'
        with open(out, 'a') as fh:
            fh.write(json.dumps(rec) + '\n')
        print(json.dumps(rec), flush=True)
        sh('git -C %s checkout -q -- .' % W)


if __name__ == '__main__':
    main()
