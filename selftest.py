#!/venv/bin/python
"""Sensitivity self-test: apply a patch to a scratch worktree of /repo, confirm the unit tests still pass, run the
owning property's quick check against the scratch tree (PV_REPO) and require exit 1 with a VIOLATION line.

  selftest.py mutants/*.diff                 (file name: <Cxx>[+Cyy...]__name.diff)
  selftest.py --all-props seeded/C01-m1      (directory with patch.diff and meta.json naming the property)

Not a registered check.  Evidence and replays of these runs go to a scratch directory, never to /verif/evidence."""
import json, os, re, shutil, subprocess, sys, time
ROOT = os.path.dirname(os.path.abspath(__file__))
W = os.environ.get('SELFTEST_W', '/tmp/mt/w')
SCR = W + '-scratch'
ALL = ['C%02d' % i for i in range(1, 21)]


def sh(cmd, **kw):
    return subprocess.run(cmd, shell=True, stdout=subprocess.PIPE, stderr=subprocess.STDOUT, text=True, **kw)


def setup():
    if not os.path.isdir(W):
        os.makedirs('/tmp/mt', exist_ok=True)
        r = sh('git -C /repo worktree add --detach %s HEAD' % W)
        assert r.returncode == 0, r.stdout
    sh('git -C %s checkout -q --detach %s && git -C %s checkout -- . && git -C %s clean -fdq' % (W, sh('git -C /repo rev-parse HEAD').stdout.strip(), W, W))


def run_one(patch, props, allprops=False, tier='quick'):
    setup()
    r = sh('git -C %s apply %s' % (W, os.path.abspath(patch)))
    if r.returncode != 0:
        return {'patch': patch, 'status': 'patch-does-not-apply', 'log': r.stdout[-400:]}
    t = sh('cd %s && /venv/bin/python -m pytest -q -p no:cacheprovider -x 2>&1 | tail -2' % W)
    tests_ok = ' passed' in t.stdout and 'failed' not in t.stdout
    res = {'patch': patch, 'tests': t.stdout.strip().splitlines()[-1] if t.stdout.strip() else '', 'tests_ok': tests_ok, 'checks': {}}
    todo = ALL if allprops else props
    for pid in todo:
        env = dict(os.environ, PV_REPO=W, PV_EVIDENCE_DIR=os.path.join(SCR, 'evidence'), PV_OUT=os.path.join(SCR, 'out'), PV_SHRINK='0', PV_FAILFAST='1')
        t0 = time.time()
        c = subprocess.run([os.path.join(ROOT, 'check'), pid, '--tier', tier], stdout=subprocess.PIPE, stderr=subprocess.STDOUT, text=True, env=env)
        viol = [l for l in c.stdout.splitlines() if l.startswith('VIOLATION')]
        buckets = [l.strip()[:200] for l in c.stdout.splitlines() if l.strip().startswith('bucket ')]
        res['checks'][pid] = {'rc': c.returncode, 'violations': len(viol), 'buckets': buckets[:4], 'wall_s': round(time.time() - t0, 1)}
        if c.returncode == 2:
            res['checks'][pid]['harness_error'] = c.stdout[-500:]
    sh('git -C %s checkout -- . && git -C %s clean -fdq' % (W, W))
    return res


def main():
    args = sys.argv[1:]
    allprops = False
    if args and args[0] == '--all-props':
        allprops = True
        args = args[1:]
    out = []
    for a in args:
        if os.path.isdir(a):
            patch = os.path.join(a, 'patch.diff')
            meta = json.load(open(os.path.join(a, 'meta.json'))) if os.path.exists(os.path.join(a, 'meta.json')) else {}
            props = meta.get('properties') or [meta.get('property')] if meta else re.findall(r'C\d\d', os.path.basename(a))
        else:
            patch = a
            props = re.findall(r'C\d\d', os.path.basename(a).split('__')[0])
        r = run_one(patch, props, allprops)
        caught = [p for p, c in r.get('checks', {}).items() if c['rc'] == 1]
        r['caught_by'] = caught
        r['owner_caught'] = any(p in caught for p in props)
        out.append(r)
        print('%-60s tests_ok=%s owner=%s caught_by=%s' % (os.path.basename(a), r.get('tests_ok'), props, caught), flush=True)
        for p, c in r.get('checks', {}).items():
            if c['rc'] == 2:
                print('   HARNESS-ERROR in', p, c.get('harness_error', '')[-300:])
    os.makedirs(os.path.join(ROOT, 'out'), exist_ok=True)
    json.dump(out, open(os.path.join(ROOT, 'out', 'selftest_last.json'), 'w'), indent=1)
    shutil.rmtree(SCR, ignore_errors=True)


if __name__ == '__main__':
    main()
