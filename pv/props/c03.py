"""C03  Any graph survives encode then decode with its content intact, from any top."""
import itertools

from hypothesis import strategies as st

import penman
from penman import layout
from penman.graph import Graph
from penman.tree import Tree

from pv.gen import graphs, models, trees
from pv.gen.base import fy
from pv.harness import Enum, Fuzz, Hyp
from pv.props.common import fmt, model_arg, noise_calls, short, tree_classes
from pv.ref import graphm, interp
from pv.ref.role import build_model

ID = 'C03'
TECHNIQUE = 'round-trip / metamorphic oracle (shuffle triples, strip markers, change top => decode(encode(g)) has the same content) over Hypothesis-generated graphs x every top, plus bounded-exhaustive small graphs x all permutations'
RULE = ('cases: (a) graphs decoded from well-formed trees, markers kept or stripped, triples in written order or shuffled; '
        '(b) hand-built well-formed connected graphs (concepts None/str/number/variable-like, constants str/quoted/int/'
        'float incl. 0, 0.0, -0.0, 1e22, None, roles with and without colon, some edges stored with an inverted role), '
        'shuffled; x models {default, amr, mini, random deinverting tables}; EVERY variable is tried as top inside each case. '
        '(c) every small well-formed tree (bound as C02) x every top x markers kept/stripped x every permutation of the '
        'triple list when it has <= 5 triples (else written and reversed order). Non-trivial: >= 2 variables and (a top '
        'other than the first source, or shuffled triples, or a numeric/None constant). Distinct by case content.')
ASSUMPTIONS = ['no-op model excluded: re-topping rewrites roles by design',
               'well-formedness as in C02 (reference interpreter); for hand-built graphs by construction',
               'constants are compared by written form (str), None stays None']


def _check_graph(g, spec, m, label, ntops=None):
    """g: Graph.  every variable as top (or ntops evenly spread ones for huge graphs)."""
    f = []
    vs = sorted(g.variables(), key=repr)
    if ntops and len(vs) > ntops:
        vs = [g.top] + [vs[(i * len(vs)) // ntops] for i in range(ntops)]
    m = model_arg(m, spec, len(vs))
    codec = penman.PENMANCodec(model=m)
    for k, v in enumerate(vs):
        try:
            # the public encoders / decoders in rotation: module functions, codec methods, stream functions
            if k % 4 == 0:
                s = penman.encode(g, top=v, model=m, indent=None)
            elif k % 4 == 1:
                s = codec.encode(g, top=v, indent=None)
            elif k % 4 == 2:
                s = penman.encode(g, v, m, None)                 # positional, in the documented order (g, top, model, indent)
            else:
                late = penman.PENMANCodec()
                late.model = m if m is not None else late.model     # the codec's public attribute, assigned after construction
                s = late.encode(g, top=v, indent=None)
        except penman.exceptions.LayoutError as e:
            f.append(('encode-raises', '%s top=%r: LayoutError %s' % (label, v, e)))
            break
        how = k % 5
        g2 = None
        if how == 0:
            g2 = penman.decode(s, model=m)
        elif how == 1:
            g2 = penman.loads(s, model=m)[0]
        elif how == 2:
            g2 = codec.decode(s)
        elif how == 3:
            g2 = next(iter(penman.iterdecode(s, model=m)))
        elif how == 4:
            g2 = next(iter(codec.iterdecode(s)))
        if k % 7 == 6:
            late = penman.PENMANCodec()
            late.model = m if m is not None else late.model
            g2 = late.decode(s)
        d = graphm.content_diff(g.triples, v, g2.triples, g2.top, spec, explicit_top_a=v)
        if d:
            f.append(('content-changed', '%s top=%r -> %s : %s' % (label, v, s, d)))
            break
        # edge / attribute split identical after normalisation (implied by the tagged multiset) and exactly-once
        if len(g2.triples) != len(g.triples):
            f.append(('triple-count', '%s top=%r -> %s' % (label, v, s)))
            break
    return f


def _graph_of(case, m):
    if case['k'] == 'built':
        return Graph(graphm.ttriples(case['g']['triples']), top=case['g'].get('top')), 'Graph(%s)' % short(case['g']['triples'], 200)
    node = interp.to_node(case['tree'])
    g = layout.interpret(Tree(node), m)
    triples = list(g.triples)
    perm = case.get('perm')
    if perm is not None:
        triples = [triples[i] for i in perm if i < len(triples)]
        rest = [t for i, t in enumerate(g.triples) if i not in set(perm)]
        triples += rest
    epi = {} if case.get('strip') else g.epidata
    h = Graph(triples, top=g.top, epidata=epi)
    return h, '%s%s%s' % (fmt(node), ' perm=%r' % perm if perm is not None else '', ' stripped' if case.get('strip') else '')


def check(case):
    spec = case['model']
    if case['k'] != 'built':
        node = interp.to_node(case['tree'])
        if interp.wellformed(node, spec) is not None:
            return []
    m = build_model(spec)
    g, label = _graph_of(case, m)
    noise_calls(m, graph=g, roles=[t[1] for t in g.triples])
    return _check_graph(g, spec, m, label, ntops=case.get('tops'))


def nontrivial(case):
    if case['k'] == 'built':
        ts = case['g']['triples']
        nv = len({t[0] for t in ts})
        return nv >= 2
    node = interp.to_node(case['tree'])
    if interp.wellformed(node, case['model']) is not None:
        return False
    return len(interp.node_vars(node)) >= 2


def classes(case):
    out = ['kind:' + case['k'], 'model:' + case['model'].get('name', 'custom')]
    if case['k'] == 'built':
        ts = case['g']['triples']
        if any(isinstance(t[2], (int, float)) for t in ts): out.append('numeric-constant')
        if any(t[2] == 0 and not isinstance(t[2], bool) for t in ts): out.append('zero-constant')
        if any(t[2] is None and 'instance' not in t[1] for t in ts): out.append('none-constant')
        if any(t[1].endswith('-of') for t in ts): out.append('stored-inverted-role')
        if any(not t[1].startswith(':') for t in ts): out.append('colonless-role')
        out.append('vars:%d' % min(6, len({t[0] for t in ts})))
    else:
        node = interp.to_node(case['tree'])
        why = interp.wellformed(node, case['model'])
        if why:
            return ['skipped:' + why]
        out += tree_classes(node)
        if case.get('strip'): out.append('stripped')
        if case.get('perm') is not None: out.append('permuted')
    return out


@st.composite
def _cases(draw, large=False):
    spec = draw(models.model_specs(noop=False))
    if spec.get('noop'):
        spec = dict(spec, noop=False)
    if draw(st.integers(0, 2)) == 0:
        g = draw(graphs.wf_graphs(spec, max_vars=18 if large else 6))
        return {'k': 'built', 'g': g, 'model': spec}
    j = draw(trees.wf_trees(spec, max_nodes=25 if large else 7, emptyconcept=False, wide=10 if large else 3))
    case = {'k': 'tree', 'tree': j, 'model': spec, 'strip': draw(st.integers(0, 2)) == 0}
    if draw(st.integers(0, 2)) > 0:
        # number of triples is not known without interpreting; a permutation of a generous index range is cut to size
        case['perm'] = fy(draw, list(range(draw(st.integers(2, 60 if large else 14)))))
    return case


NCHUNK = 32


def _small_chunks(tier):
    return [{'i': i, 'n': NCHUNK, 'B': 2 if tier == 'quick' else 3, 'B2': 3 if tier == 'quick' else 4} for i in range(NCHUNK)]


def _small_cases(ch):
    spec = {'name': 'default'}
    for idx, (j, n) in enumerate(trees.small_trees(ch['B2'])):
        if idx % ch['n'] != ch['i']:
            continue
        node = interp.to_node(j)
        if interp.wellformed(node, spec) is not None:
            continue
        nt = len(interp.interpret(node, spec).triples)
        nb = sum(1 for _ in _branches(j))
        if nb <= ch['B'] and nt <= 5:
            perms = [list(p) for p in itertools.permutations(range(nt))]
        else:
            perms = [None, list(range(nt - 1, -1, -1))]
        for p in perms:
            for strip in (False, True):
                yield {'k': 'tree', 'tree': j, 'model': spec, 'perm': p, 'strip': strip}


def _branches(j):
    for r, x in j[1]:
        if r != '/':
            yield r
        if isinstance(x, list):
            for y in _branches(x):
                yield y


def _deep_chunks(tier):
    return [{'d': d, 'v': v} for d in (101, 140) for v in range(4)] + [{'huge': n, 'shape': sh} for n in (90, 300) for sh in ('star', 'comb', 'binary')]


def _deep_cases(ch):
    j = trees.huge_tree(ch['huge'], ch['shape']) if 'huge' in ch else trees.deep_chain(ch['d'], ch['v'])
    nt = len(interp.interpret(interp.to_node(j), {'name': 'default'}).triples)
    for strip in (False, True):
        for perm in (None, list(range(nt - 1, -1, -1))):
            yield {'k': 'tree', 'tree': j, 'model': {'name': 'default'}, 'perm': perm, 'strip': strip, 'tops': 5}


def stages(tier):
    return [
        Enum('deep-and-huge', _deep_chunks, _deep_cases, 'chains nested 101 / 140 levels and stars, combs, binary trees of about 90 and 300 nodes (up to ~900 triples): markers kept / stripped, written / reversed order, 5 tops each'),
        Enum('small-graphs', _small_chunks, _small_cases,
             'every well-formed tree with <= 3 (quick) / 4 (thorough) branches over vars {a,b,c}, roles {:r,:r-of,:s}: decoded graph '
             'x every top x markers kept/stripped x written+reversed order; all permutations of the triple list for trees '
             'with <= 2 (quick) / 3 (thorough) branches and <= 5 triples'),
        Hyp('random', _cases, 6000, 160000),
        Hyp('random-large', lambda: _cases(large=True), 150, 8000),
        Fuzz('coverage-guided-structured', 0, 480000, structured=_cases, max_len=2048),
    ]
