"""C01  Text <-> tree is lossless under every formatting option."""
from hypothesis import strategies as st

import penman
from penman.exceptions import DecodeError
from penman.tree import Tree

from pv.gen import strings, texts, trees
from pv.gen import corpus
from pv.harness import Enum, Fuzz, Hyp
from pv.props.common import OPTS, short, tree_classes, tree_stats
from pv.ref import interp
from pv.ref import lex as rlex

ID = 'C01'
TECHNIQUE = 'round-trip oracle parse(format(t, indent, compact)) == t over all 16 option pairs per Hypothesis-generated tree, token-stream equality of all renderings under the reference scanner, fixed-point oracle format(parse(f)) == f on generated and bounded-exhaustive accepted inputs'
RULE = ('cases: (a) assembled trees (any shape: duplicate variables, missing concept/target, nested and top-level empty nodes, '
        'anonymous role, Unicode symbols, strings with ( ) / : ~ # and escapes, alignments incl. ~01, multi-key metadata), each '
        'written under ALL 14 (indent, compact) pairs, indent in {None,-1,0,1,2,3,7}; (b) texts assembled token by token from '
        'such trees with random blanks (incl. CR, CRLF, VT, FF), glued tokens where lexically safe, detached alignments and '
        'metadata comments, parsed by penman, for the fixed-point clause (also per graph via iterparse); (c) every string of '
        'length <= L over ( ) / : ~ " \\ # blank LF a 1 that penman accepts. Non-trivial: >= 2 nodes or a string with a '
        'delimiter/escape, an alignment, a missing concept/target, or metadata. Distinct by case content.')
ASSUMPTIONS = ['metadata values are in the image of the comment scanner (no "::", LF/CR, no trailing whitespace; leading blanks after the separating one belong to the value)',
               'symbols do not start with "#" (that is a comment by the lexical grammar)',
               'token streams are compared with the reference scanner pv/ref/lex.py (type and text)']


_CODEC = penman.PENMANCodec()


def _tokens(s):
    return [(t[0], t[1]) for t in rlex.scan(s) if t[0] != 'COMMENT']


def _meta_lines(s):
    return [t[1] for t in rlex.scan(s) if t[0] == 'COMMENT']


def check_tree(j, meta):
    node = interp.to_node(j)
    f = _no_shared_defaults(node)
    base = None
    for indent, compact in OPTS:
        t = Tree(node, metadata=dict(meta))
        s = penman.format(t, indent=indent, compact=compact)
        try:
            t2 = penman.parse(s)
        except DecodeError as e:
            f.append(('reparse-rejected', 'indent=%r compact=%r: %s: %s' % (indent, compact, short(s), (e.message, e.lineno, e.offset))))
            break
        if t2.node != node:
            f.append(('tree-roundtrip', 'indent=%r compact=%r: %s parses to %s' % (indent, compact, short(s), short(t2.node))))
            break
        if dict(t2.metadata) != meta:
            f.append(('metadata-roundtrip', 'indent=%r compact=%r: %r -> %r' % (indent, compact, meta, dict(t2.metadata))))
            break
        # the codec object is the same function under another name
        if _CODEC.format(t, indent=indent, compact=compact) != s or _CODEC.parse(s).node != t2.node:
            f.append(('codec-object-differs', 'indent=%r compact=%r: %s' % (indent, compact, short(s))))
            break
        toks = (_tokens(s), _meta_lines(s))
        if base is None:
            base = (toks, s)
        elif toks != base[0]:
            f.append(('options-change-tokens', 'indent=%r compact=%r: %s vs %s' % (indent, compact, short(s), short(base[1]))))
            break
        if penman.format(t2, indent=indent, compact=compact) != s:
            f.append(('fixed-point', 'indent=%r compact=%r: %s' % (indent, compact, short(s))))
            break
    return f


def _scribble(t):
    """mutate a parse result in place, deeply"""
    t.metadata['__scribble'] = 'x'
    stack = [t.node]
    while stack:
        var, branches = stack.pop()
        for r, x in branches:
            if not interp.is_atom(x):
                stack.append(x)
        branches.reverse()
        branches.append((':scribble', 'z'))


def check_text(s, multi):
    f = []
    try:
        # the same text is first offered to the other reader (the usual "is it a conjunction? else a graph" probing)
        penman.parse_triples(s)
    except DecodeError:
        pass
    try:
        ts = list(penman.iterparse(s)) if multi else [penman.parse(s)]
    except DecodeError:
        return []          # not an accepted input: nothing to assert here (C07 decides acceptance)
    # a parse result belongs to the caller: scribbling on it must not change what the next parse of the same text returns
    snap = [(interp.to_json(t.node), dict(t.metadata)) for t in ts]
    for t in (list(penman.iterparse(s)) if multi else [penman.parse(s)]):
        _scribble(t)
    again = [(interp.to_json(t.node), dict(t.metadata)) for t in (list(penman.iterparse(s)) if multi else [penman.parse(s)])]
    if again != snap:
        f.append(('parse-result-shared-with-later-parse', '%s: %s then %s' % (short(s), short(snap, 200), short(again, 200))))
        return f
    for t in ts:
        for indent, compact in ([-1, False], [None, False], [2, True]):
            out = penman.format(t, indent=indent, compact=compact)
            try:
                t2 = penman.parse(out)
            except DecodeError as e:
                f.append(('formatted-output-rejected', '%s -> %s: %s' % (short(s), short(out), e.message)))
                return f
            if t2.node != t.node or dict(t2.metadata) != dict(t.metadata):
                f.append(('parsed-tree-roundtrip', '%s -> %s -> %s' % (short(s), short(out), short(t2.node))))
                return f
            out2 = penman.format(t2, indent=indent, compact=compact)
            if out2 != out:
                f.append(('fixed-point', '%s -> %s -> %s' % (short(s), short(out), short(out2))))
                return f
    return f


def check(case):
    if case['k'] == 'tree':
        return check_tree(case['tree'], case.get('meta') or {})
    return check_text(case['s'], case.get('multi', False))


def _accepts(case):
    try:
        if case.get('multi'):
            return len(list(penman.iterparse(case['s']))) > 0
        penman.parse(case['s'])
        return True
    except DecodeError:
        return False


def _no_shared_defaults(node):
    """A tree built without metadata owns its (empty) metadata: annotating it in place does not annotate other trees."""
    t0 = Tree(node)
    t0.metadata['__scribble'] = 'x'
    t0.metadata['snt'] = 'not yours'
    for what, s in (('Tree(node)', penman.format(Tree(node), indent=None)), ('plain tuple', penman.format(node, indent=None))):
        if s.startswith('#') or '__scribble' in s:
            return [('metadata-leaks-between-trees', 'after annotating another metadata-free tree, format(%s) -> %r' % (what, s[:120]))]
    return []


def nontrivial(case):
    if case['k'] == 'tree':
        s = tree_stats(interp.to_node(case['tree']))
        return bool(s['nodes'] >= 2 or s['strings'] or s['aligned'] or s['missing'] or case.get('meta'))
    return _accepts(case) and len(rlex.scan(case['s'])) >= 4


def classes(case):
    if case['k'] == 'tree':
        out = ['tree'] + tree_classes(interp.to_node(case['tree']))
        if case.get('meta'):
            out.append('metadata')
            if len(case['meta']) > 1: out.append('metadata:multi-key')
            if any(v[:1].isspace() for v in case['meta'].values()): out.append('metadata:leading-blank-value')
        return out
    out = ['text', 'accepted' if _accepts(case) else 'rejected']
    if case.get('multi'): out.append('multi-graph')
    if '#' in case['s']: out.append('has-comment')
    return out


@st.composite
def _tree_cases(draw, large=False):
    deep = draw(st.integers(0, 30)) == 0
    j = draw(trees.any_trees(max_nodes=50 if large else 9, depth=draw(st.integers(20, 120)) if deep else None, max_branches=16 if large else 4))
    meta = draw(trees.metadata()) if draw(st.integers(0, 2)) == 0 else {}
    return {'k': 'tree', 'tree': j, 'meta': meta}


@st.composite
def _text_cases(draw):
    n = draw(st.sampled_from([1, 1, 1, 2, 3]))
    parts = []
    for _ in range(n):
        j = draw(trees.any_trees(max_nodes=6))
        toks = draw(texts.comment_lines()) + texts.tokens_of(j)
        parts.append(draw(texts.spaced(toks)))
    s = draw(st.sampled_from(['\n\n', '\n', ' ', '\r\n\r\n'])).join(parts)
    return {'k': 'text', 's': s, 'multi': n > 1 or draw(st.booleans())}


ALPHA = list('()/:~"\\# \na1')


def stages(tier):
    L = 5 if tier == 'quick' else 6
    return [
        Fuzz('coverage-guided-bytes', 0, 1200000, decode=lambda data: {'k': 'text', 's': data.decode('utf-8', 'ignore'), 'multi': True},
             seeds=corpus.test_strings(), dictionary=corpus.DICTIONARY, max_len=160),
        Hyp('assembled-trees', _tree_cases, 4000, 100000),
        Hyp('assembled-trees-large', lambda: _tree_cases(large=True), 300, 15000),
        Hyp('spaced-texts', _text_cases, 4000, 100000),
        Enum('short-strings',
             lambda tier: strings.prefix_chunks(ALPHA, L, 2),
             lambda ch: ({'k': 'text', 's': s} for s in strings.strings_of(ch, ALPHA, L, 2)),
             'every string of length <= %d over %d symbols (%d); the accepted ones are checked' % (L, len(ALPHA), strings.count(ALPHA, L))),
    ]
