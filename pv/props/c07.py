"""C07  The parser accepts exactly the documented language and fails cleanly."""
from hypothesis import strategies as st

import penman
from penman.exceptions import DecodeError

from pv.gen import strings, texts, trees
from pv.gen import corpus
from pv.harness import Enum, Fuzz, Hyp
from pv.props.c08 import split_keepends
from pv.props.common import debug_logging, short
from pv.ref import lex as rlex
from pv.ref import parse as rparse

ID = 'C07'
TECHNIQUE = 'differential against an independent scanner + push-down recogniser of the documented grammar: bounded-exhaustive enumeration of all short strings and token sequences, Hypothesis grammar-based texts with token-level mutations and nesting up to 200; compares acceptance, tree, metadata and error line/column for parse, iterparse and parse_triples'
RULE = ('cases: (a) every string of length <= L over ( ) / : ~ " \\ # , ^ . - blank LF a 1; (b) every sequence of <= K tokens '
        'over a 10-token vocabulary joined by single blanks; (c) texts rendered from random trees with random blanks and k '
        'token-level mutations (delete/insert/swap/duplicate), comments, several graphs, nesting up to 200, Unicode; '
        '(d) triple conjunctions (formatted triples with spacing variants and mutations). Each through parse, iterparse (str and '
        'list of lines) and parse_triples. Non-trivial: accepted with >= 2 tokens, or rejected at a token index >= 2. '
        'Distinct by string.')
ASSUMPTIONS = ['the reference grammar is docs/notation.rst (PEG) + docs/serialization.rst robustness extensions, comments only before a graph',
               'the triple-conjunction grammar is documented by example only (docstrings, code comments, tests); pv/ref/parse.py states it',
               'metadata is not compared for comment lines containing ":::" or the same key twice (left/right scanning differ; undocumented)',
               'inputs are nested <= 200 levels']


def _impl_parse(s):
    try:
        t = penman.parse(s)
        return ('ok', t.node, dict(t.metadata))
    except DecodeError as e:
        return ('rej', e.lineno, e.offset)


def _ref_parse(s):
    try:
        node, meta = rparse.ref_parse(s)
        return ('ok', node, meta)
    except rparse.Reject as r:
        return ('rej', r.lineno, r.offset)


def _same(a, b):
    """outcomes equal; metadata ignored where the reference flags it as undocumented"""
    if a[0] != b[0]:
        return False
    if a[0] == 'rej':
        return a[1:] == b[1:]
    if a[1] != b[1]:
        return False
    if isinstance(b[2], rparse.AmbiguousMeta):
        return True
    return a[2] == dict(b[2])


def _impl_iter(x):
    out = []
    try:
        for t in penman.iterparse(x):
            out.append(('ok', t.node, dict(t.metadata)))
        return out, None
    except DecodeError as e:
        return out, (e.lineno, e.offset)


def _check_triples(s, f):
    try:
        got = ('ok', penman.parse_triples(s))
    except DecodeError as e:
        got = ('rej', e.lineno, e.offset)
    try:
        ref = ('ok', rparse.ref_parse_triples(s))
    except rparse.Reject as r:
        ref = ('rej', r.lineno, r.offset)
    if got != ref:
        f.append(('parse_triples', '%s: %s, reference %s' % (short(s, 120), short(got, 200), short(ref, 200))))


def _check_graph(s, f):
    a, b = _impl_parse(s), _ref_parse(s)
    if not _same(a, b):
        f.append(('parse', '%s: %s, reference %s' % (short(s, 120), short(a, 200), short(b, 200))))
    rt, rerr = rparse.ref_iterparse(s)
    for form, x in (('str', s), ('lines', split_keepends(s)), ('bare-lines', rlex.split_lines(s))):
        it, ierr = _impl_iter(x)
        if form != 'str':
            rt, rerr = rparse.ref_iterparse(x)
        refs = [('ok', n, m) for n, m in rt]
        re_ = None if rerr is None else (rerr.lineno, rerr.offset)
        if len(it) != len(refs) or not all(_same(p, q) for p, q in zip(it, refs)) or ierr != re_:
            f.append(('iterparse:' + form, '%s: %s err=%r, reference %s err=%r' % (short(x, 120), short(it, 160), ierr, short(refs, 160), re_)))
            break


def check(case):
    """Every string goes through all three entry points (graph reading and conjunction reading), in an order that
    depends on the string, so that state carried from one call into the next (caches, counters) would show."""
    s = case['s']
    f = []
    if case.get('repeat'):
        s = s * case['repeat']
    if case.get('debug'):
        # same contract with the penman logger at DEBUG (penman -vvv)
        with debug_logging():
            return [(k + '@debug-logging', d) for k, d in check(dict(case, debug=False, repeat=0, s=s))]
    if case.get('only') == 'graph':
        _check_graph(s, f)
    elif case.get('only') == 'triples':
        _check_triples(s, f)
    elif (len(s) + (ord(s[0]) if s else 0)) % 2:
        _check_triples(s, f)
        _check_graph(s, f)
    else:
        _check_graph(s, f)
        _check_triples(s, f)
    return f


def _outcome_class(s, k):
    s = s if not isinstance(s, dict) else s['s']
    if k == 'triples':
        try:
            rparse.ref_parse_triples(s)
            return 'accepted', len(rlex.scan(s, 'triple')), None
        except rparse.Reject as r:
            toks = rlex.scan(s, 'triple')
            idx = sum(1 for t in toks if (t[2], t[3]) < (r.lineno, r.offset))
            return 'rejected', len(toks), idx
    toks = rlex.scan(s)
    try:
        rparse.ref_parse(s)
        return 'accepted', len(toks), None
    except rparse.Reject as r:
        idx = sum(1 for t in toks if (t[2], t[3]) < (r.lineno, r.offset))
        return 'rejected', len(toks), idx


def nontrivial(case):
    o, n, idx = _outcome_class(case['s'] * case.get('repeat', 1), case.get('k'))
    return (o == 'accepted' and n >= 2) or (o == 'rejected' and idx is not None and idx >= 2)


def classes(case):
    o, n, idx = _outcome_class(case['s'] * case.get('repeat', 1), case.get('k'))
    out = [(case.get('k') or 'graph') + ':' + o]
    if o == 'rejected':
        out.append('rejected-at-token>=2' if idx >= 2 else 'rejected-at-token<2')
        if idx >= n and n:
            out.append('rejected-at-eof')
    if case.get('depth'): out.append('deep:%d' % (case['depth'] // 50 * 50))
    if case.get('repeat'): out.append('repeated>=100' if case['repeat'] >= 100 else 'repeated')
    if '#' in case['s']: out.append('has-comment')
    if case.get('debug'): out.append('debug-logging')
    if case['s'][:1] == '\ufeff': out.append('starts-with-U+FEFF')
    if any(ord(c) > 127 and c.isdigit() for c in case['s']): out.append('non-ascii-digit')
    return out


ALPHA = list('()/:~"\\#,^.- \na1')
VOCAB = ['(', ')', '/', ':r', ':', 'a', '"s"', '~1', '#c\n', 'b~e.2']
TVOCAB = ['r(', 'r', '(', ')', 'a', ',', 'a,', ',b', 'a,b', '^', '^r', '"s"', ':r']


def _tokseq_chunks(tier):
    K = 6 if tier == 'quick' else 8
    return [{'first': a, 'second': b, 'K': K} for a in range(len(VOCAB)) for b in range(len(VOCAB))]


def _tokseq_cases(ch):
    import itertools
    K = ch['K']
    a, b = VOCAB[ch['first']], VOCAB[ch['second']]
    if ch['first'] == 0 and ch['second'] == 0:
        for v in VOCAB:
            yield {'s': v}
    # sequences starting with '(' dominate the interesting space: full K there, K-2 elsewhere
    kk = K if a == '(' else max(2, K - 2)
    for l in range(0, kk - 1):
        for tup in itertools.product(VOCAB, repeat=l):
            yield {'s': ' '.join((a, b) + tup)}


def _ttokseq_chunks(tier):
    K = 5 if tier == 'quick' else 6
    return [{'first': a, 'K': K} for a in range(len(TVOCAB))]


def _ttokseq_cases(ch):
    import itertools
    a = TVOCAB[ch['first']]
    for l in range(0, ch['K']):
        for tup in itertools.product(TVOCAB, repeat=l):
            yield {'s': ' '.join((a,) + tup), 'k': 'triples'}
    # the same vocabulary with line breaks as the blank between tokens (a line end is just a blank in a conjunction)
    for l in range(0, 4):
        for tup in itertools.product(TVOCAB, repeat=l):
            yield {'s': '\n'.join((a,) + tup), 'k': 'triples'}
    for sep in ('\n', ' \n', '\r\n', '\n\n', '\n# c\n'):
        for x in ('r(a, b)', 'r(a, "s")', 'r(a,)'):
            for y in ('s(b, c)', '^ s(b, c)', '^s(b,c)', 'foo', '(', ')', '"t"', '^'):
                if TVOCAB[ch['first']] == 'r(':
                    yield {'s': x + sep + y, 'k': 'triples'}


@st.composite
def _random(draw):
    c = draw(st.integers(0, 9))
    if c <= 5:
        n = draw(st.sampled_from([1, 1, 1, 2, 3]))
        parts = []
        for _ in range(n):
            j = draw(trees.any_trees(max_nodes=6))
            toks = draw(texts.comment_lines()) + texts.tokens_of(j)
            if draw(st.integers(0, 2)) > 0:
                toks = draw(texts.mutated(toks))
            parts.append(draw(texts.spaced(toks)))
        s = draw(st.sampled_from(['\n\n', '\n', ' ', ''])).join(parts)
        if draw(st.integers(0, 11)) == 0:
            s = draw(st.sampled_from(FIRST_CHARS)) + s
        out = {'s': s}
        if draw(st.integers(0, 7)) == 0:
            out['debug'] = True
        return out
    if c == 6:
        d = draw(st.integers(50, 200))
        j = draw(trees.any_trees(depth=d))
        toks = texts.tokens_of(j)
        if draw(st.booleans()):
            toks = draw(texts.mutated(toks, max_mut=1))
        return {'s': ' '.join(toks), 'depth': d}
    if c == 7:
        return {'s': draw(st.text(alphabet=st.sampled_from(ALPHA + ['\r', '\t', '\u00e9', '\x85', ' ']), max_size=40))}
    # triple conjunctions
    n = draw(st.integers(1, 4))
    items = []
    for _ in range(n):
        r = draw(st.sampled_from(['instance', 'ARG0', ':r', 'r-of', '^x', 'a,b', '^g', '^^h']))
        src = draw(st.sampled_from(['a', 'b', 'x1']))
        tgt = draw(st.sampled_from(['b', '"s t"', '1,000', '"a,b"', '"(x)"', '', ',', '^q', 'c']))
        comma = draw(st.sampled_from([', ', ',', ' ,', ' , ', ' ']))
        items.append('%s(%s%s%s)' % (r, src, comma, tgt))
    s = items[0]
    for it in items[1:]:
        s += draw(st.sampled_from([' ^ ', ' ^', '^ ', '^', ' ^\n', ' ', '\n', '\n^ ', '\r\n', '\n\n'])) + it
    if draw(st.integers(0, 2)) == 0:
        toks = [t[1] for t in rlex.scan(s, 'triple')]
        s = ' '.join(draw(texts.mutated(toks, max_mut=2)))
    return {'s': s, 'k': 'triples'}


STRING_ALPHA = ['"', '\\', 'a', ' ', 'n']
STRING_TEMPLATES = ['(a :r %s)', '(a / %s)', '(a :r %s :s "t")', '%s', 'r(a, %s)', 'r(a, %s) ^ s(b, "t")']


def _stratom_chunks(tier):
    return [{'t': i, 'L': 5 if tier == 'quick' else 7} for i in range(len(STRING_TEMPLATES))]


def _stratom_cases(ch):
    tpl = STRING_TEMPLATES[ch['t']]
    k = 'triples' if tpl.startswith('r(') else None
    for ch2 in strings.prefix_chunks(STRING_ALPHA, ch['L'], 1):
        for x in strings.strings_of(ch2, STRING_ALPHA, ch['L'], 1):
            c = {'s': tpl % x}
            if k:
                c['k'] = k
            yield c


ALIGN_ALPHA = ['~', '1', ',', '\u0663', 'e', '.', 'a', '\u00e9', 'Z']
ALIGN_TEMPLATES = ['(a :r b%s)', '(a :r%s b)', '(a / b%s :r c)', 'r(a, b%s)']


def _alatom_chunks(tier):
    return [{'t': i, 'L': 4 if tier == 'quick' else 6} for i in range(len(ALIGN_TEMPLATES))]


def _alatom_cases(ch):
    tpl = ALIGN_TEMPLATES[ch['t']]
    for ch2 in strings.prefix_chunks(ALIGN_ALPHA, ch['L'], 1):
        for x in strings.strings_of(ch2, ALIGN_ALPHA, ch['L'], 1):
            c = {'s': tpl % x}
            if tpl.startswith('r('):
                c['k'] = 'triples'
            yield c


# characters that are NOT among the six blanks the lexer skips, at the places where an "ignorable" character would be dropped
FIRST_CHARS = ['\ufeff', '\xa0', '\u3000', '\u2028', '\x85', '\x1c', '\u200b', '\ufffe', '\x00', '\x0b', '\x0c', '\t', '\r', '\u0663']
FIRST_TEXTS = ['(a / b)', ' (a b)', '# ::id 1\n(a / b)', '(a :r b)\n(c / d)', 'role(a, b)', 'instance(a, b) ^ r(a, c)', '', '()', '(a :r "s")', '(a', ':r']


def _first_chunks(tier):
    return [{'c': i} for i in range(len(FIRST_CHARS))]


def _first_cases(ch):
    c = FIRST_CHARS[ch['c']]
    for t in FIRST_TEXTS:
        variants = {c + t, t + c, c + ' ' + t, t.replace('\n', '\n' + c), t.replace(' ', c, 1), t.replace(')', c + ')', 1), c + c + t}
        for s in sorted(variants):
            for dbg in (False, True):
                yield dict({'s': s}, **({'debug': True} if dbg else {}))


def _debug_chunks(tier):
    return [{'first': a} for a in range(len(VOCAB))]


def _debug_cases(ch):
    import itertools
    a = VOCAB[ch['first']]
    for l in range(0, 4):
        for tup in itertools.product(VOCAB, repeat=l):
            yield {'s': ' '.join((a,) + tup), 'debug': True}
    b = TVOCAB[ch['first']]
    for l in range(0, 3):
        for tup in itertools.product(TVOCAB, repeat=l):
            yield {'s': ' '.join((b,) + tup), 'k': 'triples', 'debug': True}


def _fuzz_decode(data):
    # first byte selects the entry point family; the rest is the text
    if not data:
        return None
    text = data[1:].decode('utf-8', 'ignore')
    if data[0] % 4 == 3:
        return {'s': text, 'k': 'triples'}
    return {'s': text}


REPEAT_UNITS = ['()', '(a)', '(a / b) ', '# ::id 1\n(a / b)\n', '(a :r (b :s ()))', '(a :r "s")\n\n', '() ', '(a / b~1 :r~2 c~e.3)\n', '(a',
                'r(a, b) ^ ', 'r(a, "s")^', '^r(a,b) ', '# c\n', '(a :r (b :r (c :r (d))))']
REPEATS = [2, 3, 17, 100, 257, 401, 513, 1025]


def _repeat_chunks(tier):
    return [{'u': i} for i in range(len(REPEAT_UNITS))]


def _repeat_cases(ch):
    for n in REPEATS:
        yield {'s': REPEAT_UNITS[ch['u']], 'repeat': n}
        if REPEAT_UNITS[ch['u']].rstrip().endswith('^'):
            yield {'s': REPEAT_UNITS[ch['u']], 'repeat': n, 'k': 'triples'}


def stages(tier):
    L = 5 if tier == 'quick' else 6
    return [
        Enum('exhaustive-strings',
             lambda tier: strings.prefix_chunks(ALPHA, L, 2),
             lambda ch: ({'s': s, 'only': 'graph'} for s in strings.strings_of(ch, ALPHA, L, 2)),
             'every string of length <= %d over %d symbols (%d), as graph text' % (L, len(ALPHA), strings.count(ALPHA, L))),
        Enum('exhaustive-strings-triples',
             lambda tier: strings.prefix_chunks(ALPHA, L - 1, 2),
             lambda ch: ({'s': s, 'k': 'triples', 'only': 'triples'} for s in strings.strings_of(ch, ALPHA, L - 1, 2)),
             'every string of length <= %d over the same alphabet, as triple conjunction' % (L - 1)),
        Enum('token-sequences', _tokseq_chunks, _tokseq_cases,
             'token sequences over a 10-token vocabulary joined by single blanks: all of length <= 6 (quick) / 8 (thorough) '
             'that start with "(", all of length <= 4 / 6 otherwise'),
        Enum('triple-token-sequences', _ttokseq_chunks, _ttokseq_cases,
             'all sequences of <= 5 (quick) / 6 (thorough) tokens over a 13-token conjunction vocabulary'),
        Enum('string-atoms', _stratom_chunks, _stratom_cases,
             'every string of length <= 5 (quick) / 7 (thorough) over quote, backslash, a, blank, n placed as target, concept, bare text and '
             'conjunction target (terminated, unterminated, escaped quotes and backslashes in every position)'),
        Enum('alignment-atoms', _alatom_chunks, _alatom_cases,
             'every string of length <= 4 (quick) / 6 (thorough) over ~ 1 , U+0663 e . a e-acute Z glued to a target, a role, a concept and a conjunction '
             'target: where an alignment ends, with a non-ASCII decimal digit in the alphabet'),
        Enum('odd-first-characters', _first_chunks, _first_cases,
             'U+FEFF, NBSP, U+3000, U+2028, U+0085, U+001C, U+200B, U+FFFE, NUL, VT, FF, TAB, CR, U+0663 at the very start of the input, at its end, '
             'at the start of a later line, before ")" and instead of a blank, for 11 small texts; each also with the penman logger at DEBUG'),
        Enum('debug-logging', _debug_chunks, _debug_cases,
             'all sequences of <= 4 tokens (graph vocabulary) and <= 3 tokens (conjunction vocabulary) with the penman logger at DEBUG'),
        Enum('repetitions', _repeat_chunks, _repeat_cases,
             'small units (graphs, empty nodes, comments, conjunction items) repeated 2..1025 times in one input: counters, caches and limits'),
        Hyp('random', _random, 7000, 300000),
        Fuzz('coverage-guided-bytes', 0, 1500000, decode=_fuzz_decode, seeds=corpus.test_strings(), dictionary=corpus.DICTIONARY, max_len=120),
        Fuzz('coverage-guided-bytes-empty-corpus', 0, 500000, decode=_fuzz_decode, seeds=None, dictionary=None, max_len=64, shards=8),
    ]
