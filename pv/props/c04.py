"""C04  Decoding yields exactly the documented reading of the notation."""
from hypothesis import strategies as st

import penman
from penman import layout, surface
from penman.tree import Tree

from pv.gen import models, trees
from pv.harness import Enum, Hyp
from pv.props.common import churn_models, model_arg, fmt, noise_calls, short, tree_classes, tree_stats
from pv.ref import interp
from pv.ref.role import build_model

ID = 'C04'
TECHNIQUE = 'differential against an independent reference interpreter written from docs/notation.rst and docs/structures.rst; Hypothesis-generated arbitrary (also ill-formed) trees x models + bounded-exhaustive small trees'
RULE = ('cases: ANY tree the grammar can spell (duplicate definitions, duplicate triples, over-inverted roles, empty '
        'nodes, inverted attributes, missing concept/target, alignments incl. non-canonical spellings, "~" inside '
        'strings) and well-formed trees, x models {default, amr, noop, mini, random tables}; every small tree without '
        'the well-formedness filter. Compared: top, variables(), ordered triples, alignments, role alignments. '
        'Non-trivial: the tree has an inverted role, an alignment, a "~" inside a string, or a duplicate variable. '
        'Distinct by (tree, model).')
ASSUMPTIONS = ['the reference reading is pv/ref/interp.py',
               'for a triple that occurs more than once only membership of the reported alignment among the written '
               'ones is required (the statement does not pick one)']


def _aln(a):
    return (a.prefix or None, tuple(a.indices))


def check(case):
    spec = case['model']
    node = interp.to_node(case['tree'])
    fresh = bool(len(case['tree'][1]) % 2)
    if fresh:
        churn_models(node)
    m = build_model(spec, fresh=fresh)
    noise_calls(m, node)
    f = []
    g = layout.interpret(Tree(node), model_arg(m, spec, len(case['tree'][1]) // 2))
    rd = interp.interpret(node, spec)
    if g.top != rd.top:
        f.append(('top', '%s: top %r, reference %r' % (fmt(node), g.top, rd.top)))
    if g.triples != rd.triples:
        f.append(('triples', '%s: %s, reference %s' % (fmt(node), short(g.triples), short(rd.triples))))
        return f
    want_vars = {t[0] for t in rd.triples} | {rd.top}
    if g.variables() != want_vars:
        f.append(('variables', '%s: %r, reference %r' % (fmt(node), g.variables(), want_vars)))
    for name, fn, key in (('alignments', surface.alignments, 'tgt_aln'), ('role-alignments', surface.role_alignments, 'role_aln')):
        got = {t: _aln(a) for t, a in fn(g).items()}
        written = {}
        for tr, fact in zip(rd.triples, rd.facts):
            written.setdefault(tr, [])
            if fact[key] is not None:
                written[tr].append(interp.parse_alignment(fact[key]))
        for tr, alns in written.items():
            n_occ = rd.triples.count(tr)
            if n_occ == 1:
                exp = alns[0] if alns else None
                if got.get(tr) != exp:
                    f.append((name, '%s: %r has %r, text says %r' % (fmt(node), tr, got.get(tr), exp)))
                    break
            else:
                if tr in got and got[tr] not in alns:
                    f.append((name + '-dup', '%s: %r has %r, written %r' % (fmt(node), tr, got.get(tr), alns)))
                    break
        for tr in got:
            if tr not in written:
                f.append((name, 'alignment on unknown triple %r' % (tr,)))
    # no alignment text is left inside any triple
    for s, r, t in g.triples:
        if '~' in r or (isinstance(t, str) and '~' in t and not t.startswith('"')):
            f.append(('alignment-inside-triple', '%s: %r' % (fmt(node), (s, r, t))))
            break
    # the same reading through text
    if case.get('text'):
        s = penman.format(Tree(node), indent=None)
        g2 = penman.decode(s, model=model_arg(m, spec, len(s)))
        if g2.triples != rd.triples or g2.top != rd.top:
            f.append(('decode-text', '%s: %s, reference %s' % (s, short(g2.triples), short(rd.triples))))
    return f


def _features(node):
    s = tree_stats(node)
    vs = interp.node_vars(node)
    dup = len(set(vs)) != len(vs)
    tilde_in_string = False
    inv_role = False

    def walk(nd):
        nonlocal tilde_in_string, inv_role
        for r, x in nd[1]:
            if r.split('~')[0].endswith('-of'):
                inv_role = True
            if interp.is_atom(x):
                if isinstance(x, str) and x.startswith('"') and '~' in x[:x.rfind('"')]:
                    tilde_in_string = True
            else:
                walk(x)
    walk(node)
    return s, dup, tilde_in_string, inv_role


def nontrivial(case):
    s, dup, tis, inv = _features(interp.to_node(case['tree']))
    return bool(inv or s['aligned'] or tis or dup)


def classes(case):
    node = interp.to_node(case['tree'])
    s, dup, tis, inv = _features(node)
    out = ['model:' + case['model'].get('name', 'custom')] + tree_classes(node)
    if dup: out.append('duplicate-variable')
    if tis: out.append('tilde-in-string')
    if inv: out.append('inverted-role')
    out.append('wf' if interp.wellformed(node, case['model']) is None else 'ill-formed')
    return out


@st.composite
def _cases(draw, large=False):
    spec = draw(models.model_specs(open_patterns=True, hand_noop=True))
    if draw(st.integers(0, 2)) == 0:
        j = draw(trees.wf_trees(spec, max_nodes=40 if large else 8, wide=14 if large else 3))
    else:
        j = draw(trees.any_trees(max_nodes=40 if large else 7, max_branches=14 if large else 4))
    return {'tree': j, 'model': spec, 'text': True}


NCHUNK = 32


def _small_chunks(tier):
    return [{'i': i, 'n': NCHUNK, 'B': 3 if tier == 'quick' else 4} for i in range(NCHUNK)]


def _small_cases(ch):
    for idx, (j, n) in enumerate(trees.small_trees(ch['B'])):
        if idx % ch['n'] != ch['i']:
            continue
        yield {'tree': j, 'model': {'name': 'default'}}
        yield {'tree': j, 'model': {'name': 'noop'}}
        yield {'tree': j, 'model': {'name': 'noop', 'by_override': True}}


def _deep_chunks(tier):
    return [{'d': d, 'v': v} for d in (60, 101, 130, 199) for v in range(4)] + [{'huge': n, 'shape': sh} for n in (90, 300) for sh in ('star', 'comb', 'binary')]


def _deep_cases(ch):
    if 'huge' in ch:
        if ch['shape'] == 'comb' and ch['huge'] > 300:
            return
        j = trees.huge_tree(ch['huge'], ch['shape'])
    else:
        j = trees.deep_chain(ch['d'], ch['v'])
    yield {'tree': j, 'model': {'name': 'default'}, 'text': True}


def stages(tier):
    return [
        Enum('deep-and-huge', _deep_chunks, _deep_cases, 'chains nested 60 / 101 / 130 / 199 levels with re-entrancies to ancestors after the nested branch (4 variants); stars, combs and binary trees of about 90 and 300 nodes'),
        Enum('small-trees', _small_chunks, _small_cases,
             'every tree (no well-formedness filter) with <= 3 (quick) / 4 (thorough) non-concept branches over vars {a,b,c}, '
             'roles {:r,:r-of,:s}, atom k, concept in {absent,x}; x {default, noop}'),
        Hyp('random', _cases, 8000, 200000),
        Hyp('random-large', lambda: _cases(large=True), 300, 15000),
    ]
