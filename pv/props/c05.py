"""C05  Re-layout operations never change the graph."""
import copy
import random

from hypothesis import strategies as st

from penman import layout
from penman.graph import Graph
from penman.tree import Tree

from pv.gen import graphs, models, trees
from pv.harness import Hyp
from pv.props.common import fmt, noise_calls, short, tree_classes
from pv.ref import graphm, interp
from pv.ref.role import build_model, roles_for

ID = 'C05'
TECHNIQUE = 'metamorphic oracle (rearrange / reconfigure / new top => same graph content) plus an order oracle (result == stable sort of each branch list under an independently implemented role key); Hypothesis-generated well-formed trees and graphs'
RULE = ('cases: well-formed trees (role pool rich in :op2/:op9/:op10, :x2y9/:x2y10, inverted and aligned roles) x key in '
        '{none, original, alphanumeric, canonical, random(seed)} x attributes_first -> rearrange; decoded and hand-built '
        'graphs x key x EVERY variable as new top -> reconfigure and configure. Non-trivial: some node has >= 3 non-concept '
        'branches with >= 2 distinct keys, or a new top differs from the old one. Distinct by case content.')
ASSUMPTIONS = ['the sort key is applied to the branch role text as written (alignment suffix included), as rearrange() does',
               'with attributes_first, the position of an ALIGNED re-entrancy (b~1) is not asserted: the statement does not fix it',
               'random keys: only content, branch multisets and concept-first are asserted; random.seed(k) is set for replay',
               'deinverting models only (no-op re-topping rewrites roles by design)']

KEYS = ['none', 'original', 'alphanumeric', 'canonical', 'random']


def _model_key(m, name):
    return {'none': None, 'original': m.original_order, 'alphanumeric': m.alphanumeric_order,
            'canonical': m.canonical_order, 'random': m.random_order}[name]


def _ref_key(R, name):
    if name in ('none', 'original'):
        return lambda r: 0
    if name == 'alphanumeric':
        return R.alphanumeric_key
    if name == 'canonical':
        return R.canonical_key
    return None


def _reinterpret(t, m):
    """interpret() reads trees as the parser builds them (atoms are text): spell numeric atoms as text first."""
    def conv(nd):
        return (nd[0], [(r, (x if (x is None or isinstance(x, str)) else str(x)) if interp.is_atom(x) else conv(x)) for r, x in nd[1]])
    return layout.interpret(Tree(conv(t.node)), m)


def _check_order(before, after, vs, refkey, attributes_first, path, f):
    """before/after: nodes of the same tree position."""
    bb, ab = before[1], after[1]
    if before[0] != after[0]:
        f.append(('node-variable-changed', '%s: %r -> %r' % (path, before[0], after[0])))
        return
    first_b = bb[0:1] if bb and bb[0][0] == '/' else []
    rest_b = bb[len(first_b):]
    first_a = ab[0:len(first_b)]
    rest_a = ab[len(first_b):]
    if [(r, x) for r, x in first_a if interp.is_atom(x)] != [(r, x) for r, x in first_b]:
        f.append(('concept-first', '%s: concept branch %r -> %r' % (path, first_b, first_a)))
        return

    def ident(br):
        r, x = br
        return (r, x if interp.is_atom(x) else ('node', x[0]))
    if sorted(map(repr, map(ident, rest_b))) != sorted(map(repr, map(ident, rest_a))):
        f.append(('branch-multiset', '%s: %r -> %r' % (path, list(map(ident, rest_b)), list(map(ident, rest_a)))))
        return
    if refkey is not None:
        aligned_reent = attributes_first and any(
            interp.is_atom(x) and isinstance(x, str) and interp.split_atom(x)[1] is not None and interp.split_atom(x)[0] in vs
            for r, x in rest_b)
        if not aligned_reent:
            def k(br):
                r, x = br
                c1 = False
                if attributes_first:
                    c1 = (x in vs) if interp.is_atom(x) else (x[0] in vs)
                return (c1, refkey(r))
            exp = sorted(rest_b, key=k)
            if list(map(ident, exp)) != list(map(ident, rest_a)):
                f.append(('branch-order', '%s: expected %r, got %r' % (path, [b[0] for b in exp], [b[0] for b in rest_a])))
                return
    # recurse: match children by variable (well-formed: unique)
    kids_b = {x[0]: x for r, x in rest_b if not interp.is_atom(x)}
    for r, x in rest_a:
        if not interp.is_atom(x) and x[0] in kids_b:
            _check_order(kids_b[x[0]], x, vs, refkey, attributes_first, path + '/' + str(x[0]), f)
            if f:
                return


def check(case):
    spec = case['model']
    m = build_model(spec)
    R = roles_for(spec)
    keyname = case['key']
    if case['k'] != 'built':
        noise_calls(m, interp.to_node(case['tree']))
    key = _model_key(m, keyname)
    if keyname == 'random':
        random.seed(case.get('rseed', 0))
    f = []
    if case['k'] == 'rearrange':
        node = interp.to_node(case['tree'])
        if interp.wellformed(node, spec) is not None:
            return []
        before = copy.deepcopy(node)
        t = Tree(node)
        g0 = layout.interpret(Tree(before), m)
        layout.rearrange(t, key=key, attributes_first=case['af'])
        vs = set(interp.node_vars(before))
        _check_order(before, t.node, vs, _ref_key(R, keyname), case['af'], str(before[0]), f)
        g1 = layout.interpret(t, m)
        d = graphm.content_diff(g0.triples, g0.top, g1.triples, g1.top, spec, explicit_top_a=g0.top)
        if d:
            f.append(('rearrange-content', '%s key=%s af=%r -> %s : %s' % (fmt(before), keyname, case['af'], fmt(t.node), d)))
        return f
    # reconfigure / configure from every top
    if case['k'] == 'built':
        g = Graph(graphm.ttriples(case['g']['triples']), top=case['g'].get('top'))
        label = 'Graph(%s)' % short(case['g']['triples'], 240)
    else:
        node = interp.to_node(case['tree'])
        if interp.wellformed(node, spec) is not None:
            return []
        g = layout.interpret(Tree(node), m)
        label = fmt(node)
    snap = graphm.snapshot(g)
    import pickle
    for k_, v in enumerate([None] + sorted(g.variables(), key=repr)):
        if keyname == 'random':
            random.seed(case.get('rseed', 0))
        # in rotation: the graph itself, a copy that went through pickle (what multiprocessing hands over), a deep copy
        g = [g, pickle.loads(pickle.dumps(g)), copy.deepcopy(g)][k_ % 3]
        t = layout.reconfigure(g, top=v, model=m, key=key)
        g1 = _reinterpret(t, m)
        want_top = g.top if v is None else v
        d = graphm.content_diff(g.triples, want_top, g1.triples, g1.top, spec, explicit_top_a=want_top)
        if d:
            f.append(('reconfigure-content', '%s key=%s top=%r -> %s : %s' % (label, keyname, v, fmt(t.node), d)))
            break
        t2 = layout.configure(g, top=v, model=m)
        g2 = _reinterpret(t2, m)
        d = graphm.content_diff(g.triples, want_top, g2.triples, g2.top, spec, explicit_top_a=want_top)
        if d:
            f.append(('new-top-content', '%s top=%r -> %s : %s' % (label, v, fmt(t2.node), d)))
            break
    if graphm.snapshot(g) != snap:
        f.append(('reconfigure-mutates-argument', label))
    return f


def _varied_node(node, R, keyname):
    rk = _ref_key(R, keyname) or (lambda r: r)
    stack = [node]
    while stack:
        var, br = stack.pop()
        rest = [b for b in br if b[0] != '/']
        if len(rest) >= 3 and len({repr(rk(r)) for r, _ in rest}) >= 2:
            return True
        stack.extend(x for r, x in br if not interp.is_atom(x))
    return False


def nontrivial(case):
    if case['k'] == 'built':
        return len({t[0] for t in case['g']['triples']}) >= 2
    node = interp.to_node(case['tree'])
    if interp.wellformed(node, case['model']) is not None:
        return False
    if case['k'] == 'rearrange':
        return _varied_node(node, roles_for(case['model']), case['key'])
    return len(interp.node_vars(node)) >= 2


def classes(case):
    out = ['kind:' + case['k'], 'key:' + case['key'], 'model:' + case['model'].get('name', 'custom')]
    if case['k'] == 'rearrange' and case['af']:
        out.append('attributes-first')
    if case['k'] != 'built':
        node = interp.to_node(case['tree'])
        why = interp.wellformed(node, case['model'])
        if why:
            return ['skipped:' + why]
        out += tree_classes(node)
        if case['k'] == 'rearrange' and _varied_node(node, roles_for(case['model']), case['key']):
            out.append('node-with>=3-branches-2-keys')
        import re as _re
        stems = {}
        for r, x in node[1]:
            m_ = _re.fullmatch(r'(.*?)([0-9]*)', r.split('~')[0])
            stems.setdefault(m_.group(1), set()).add(m_.group(2))
        if any(len({int(d or 0) for d in ds}) < len(ds) for ds in stems.values()):
            out.append('sibling-roles-with-tied-numeric-suffix')
    return out


WIDE_ROLES = [':consist-of', ':prep-on-behalf-of', ':prep-out-of', ':op100', ':op20', ':op1', ':op2', ':op9', ':op10', ':op11', ':ARG0', ':ARG1', ':ARG2', ':x2y9', ':x2y10', ':mod', ':domain', ':name', ':']

# same stem, numeric suffixes that tie or nearly tie: bare stem, zero, zero-padded
FAMILIES = [[':op', ':op0', ':op00', ':op01', ':op1', ':op10', ':op2'], [':ARG', ':ARG0', ':ARG00', ':ARG1', ':ARG01'],
            [':snt1', ':snt01', ':snt010', ':snt11', ':snt2', ':snt'], [':x2y', ':x2y0', ':x2y9', ':x2y10', ':x02y10']]


@st.composite
def _cases(draw, large=False):
    spec = draw(models.model_specs(noop=False))
    if spec.get('noop'):
        spec = dict(spec, noop=False)
    key = draw(st.sampled_from(KEYS))
    rseed = draw(st.integers(0, 1000))
    c = draw(st.integers(0, 5))
    if c <= 2:
        j = draw(trees.wf_trees(spec, max_nodes=25 if large else 6, extra_roles=WIDE_ROLES, wide=16 if large else 3))
        # widen: the generator adds up to 3 extras per node; rearrange needs wide nodes, so graft extra attributes
        R = roles_for(spec)
        rpool = WIDE_ROLES if draw(st.integers(0, 2)) else FAMILIES[draw(st.integers(0, len(FAMILIES) - 1))]
        extra = draw(st.lists(st.tuples(st.sampled_from(rpool), st.sampled_from(['1', '"s"', 'q', '-'])), max_size=6))
        have = {(r.split('~')[0], x) for r, x in j[1] if isinstance(x, str)}
        for r, x in extra:
            if R.is_canonical_inversion(r) and (r, x) not in have:
                have.add((r, x))
                j[1].insert(draw(st.integers(1 if j[1] and j[1][0][0] == '/' else 0, len(j[1]))), [r, x])
        return {'k': 'rearrange', 'tree': j, 'model': spec, 'key': key, 'af': draw(st.booleans()), 'rseed': rseed}
    if c <= 4:
        j = draw(trees.wf_trees(spec, max_nodes=20 if large else 6, emptyconcept=False, extra_roles=WIDE_ROLES, wide=8 if large else 3))
        return {'k': 'reconf', 'tree': j, 'model': spec, 'key': key, 'rseed': rseed}
    g = draw(graphs.wf_graphs(spec, max_vars=5))
    return {'k': 'built', 'g': g, 'model': spec, 'key': key, 'rseed': rseed}


def stages(tier):
    return [Hyp('random', _cases, 5000, 150000), Hyp('random-large', lambda: _cases(large=True), 200, 10000)]
