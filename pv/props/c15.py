"""C15  Graph queries partition the triples; graph set operations are set algebra."""
import itertools

from hypothesis import strategies as st
from hypothesis.stateful import RuleBasedStateMachine, initialize, precondition, rule

from penman.exceptions import GraphError
from penman.graph import Graph, Triple

from pv.gen.base import fy, pick
from pv.harness import Enum, Hyp, Machine
from pv.props.common import short
from pv.ref import graphm

ID = 'C15'
TECHNIQUE = 'model-based testing: a list/set reference model of Graph queries and of | |= - -=; bounded-exhaustive enumeration of all short triple lists x tops, Hypothesis lists, and a Hypothesis rule-based state machine over a pool of graphs'
RULE = ('cases: (a) EVERY list of <= 3 triples over sources {a,b}, roles {:instance, :r, r}, targets {a, b, x, None} x top in '
        '{None, a, b, z}; (b) random longer lists with duplicates, variable-spelled concepts/targets, numeric constants; (c) histories '
        'of | |= - -= and top assignments over a pool of three marker-carrying graphs (state machine), model compared after every step. '
        'Non-trivial: the list has a duplicate or a variable-spelled concept/target; a history has >= 1 in-place and >= 1 pure operation. '
        'Distinct by case content.')
ASSUMPTIONS = ['set-operation operands are duplicate-free lists (the statement speaks of set operations)',
               'markers of triples that BOTH operands contain are not asserted after a union (the statement only speaks of added triples)',
               'markers are compared by value']


def _colon(r):
    return r if r.startswith(':') else ':' + r


def _fresh(x):
    """an equal string that is a different object (CPython keeps 0/1-character strings as singletons)"""
    return (x + ' ')[:-1] if isinstance(x, str) else x


def check_queries(triples, top, settop):
    f = []
    ts = [tuple(t) for t in triples]
    g = Graph(ts, top=top)
    norm = [(s, _colon(r), t) for s, r, t in ts]
    lab = 'Graph(%s, top=%r)' % (short(triples, 200), top)
    if g.triples != norm:
        f.append(('triples-normalised', '%s -> %r' % (lab, g.triples)))
        return f
    # "an iterable of triples (Triple or 3-tuples)": the same graph from Triple objects and from a one-shot iterator
    for how, g2 in (('Triple objects', Graph([Triple(*t) for t in ts], top=top)), ('iterator', Graph(iter(ts), top=top))):
        if g2.triples != norm or g2 != g:
            f.append(('triples-normalised:' + how.split()[0], '%s from %s -> %r' % (lab, how, g2.triples)))
            return f
    vs = {s for s, _, _ in norm} | ({top} if top is not None else set())
    if g.variables() != vs:
        f.append(('variables', '%s -> %r, model %r' % (lab, g.variables(), vs)))
    want_top = top if top is not None else (norm[0][0] if norm else None)
    if g.top != want_top:
        f.append(('top', '%s -> %r, model %r' % (lab, g.top, want_top)))
    inst = [t for t in norm if t[1] == ':instance']
    edges = [t for t in norm if t[1] != ':instance' and t[2] in vs]
    attrs = [t for t in norm if t[1] != ':instance' and t[2] not in vs]
    gi, ge, ga = [tuple(t) for t in g.instances()], [tuple(t) for t in g.edges()], [tuple(t) for t in g.attributes()]
    if gi != inst:
        f.append(('instances', '%s -> %r, model %r' % (lab, gi, inst)))
    if ge != edges:
        f.append(('edges', '%s -> %r, model %r' % (lab, ge, edges)))
    if ga != attrs:
        f.append(('attributes', '%s -> %r, model %r' % (lab, ga, attrs)))
    if len(gi) + len(ge) + len(ga) != len(norm):
        f.append(('partition', '%s: %d+%d+%d != %d' % (lab, len(gi), len(ge), len(ga), len(norm))))
    # filters select sub-lists
    srcs = sorted({t[0] for t in norm})
    roles = sorted({t[1] for t in norm})
    tgts = sorted({t[2] for t in norm}, key=repr)
    for s in srcs + ['nope']:
        s = _fresh(s)
        if [tuple(t) for t in g.edges(source=s)] != [t for t in edges if t[0] == s]:
            f.append(('edges-filter-source', '%s source=%r' % (lab, s)))
        if [tuple(t) for t in g.attributes(source=s)] != [t for t in attrs if t[0] == s]:
            f.append(('attributes-filter-source', '%s source=%r' % (lab, s)))
    for r in roles:
        r = _fresh(r)
        if [tuple(t) for t in g.edges(role=r)] != [t for t in edges if t[1] == r]:
            f.append(('edges-filter-role', '%s role=%r' % (lab, r)))
        if [tuple(t) for t in g.attributes(role=r)] != [t for t in attrs if t[1] == r]:
            f.append(('attributes-filter-role', '%s role=%r' % (lab, r)))
    for t_ in tgts:
        if t_ is None:
            continue
        t_ = _fresh(t_)
        if [tuple(t) for t in g.edges(target=t_)] != [t for t in edges if t[2] == t_]:
            f.append(('edges-filter-target', '%s target=%r' % (lab, t_)))
        if [tuple(t) for t in g.attributes(target=t_)] != [t for t in attrs if t[2] == t_]:
            f.append(('attributes-filter-target', '%s target=%r' % (lab, t_)))
    if srcs and roles:
        s, r = _fresh(srcs[0]), _fresh(roles[-1])
        if [tuple(t) for t in g.edges(source=s, role=r)] != [t for t in edges if t[0] == s and t[1] == r]:
            f.append(('edges-filter-combined', '%s source=%r role=%r' % (lab, s, r)))
    # re-entrancies
    cnt = {}
    if want_top is not None:
        cnt[want_top] = 1
    for t in edges:
        cnt[t[2]] = cnt.get(t[2], 0) + 1
    want_re = {v: c - 1 for v, c in cnt.items() if c >= 2}
    if g.reentrancies() != want_re:
        f.append(('reentrancies', '%s -> %r, model %r' % (lab, g.reentrancies(), want_re)))
    # top assignment
    try:
        g.top = settop
        raised = False
    except GraphError:
        raised = True
    should = settop is not None and settop not in vs
    if raised != should:
        f.append(('top-setter', '%s: top=%r %s' % (lab, settop, 'refused' if raised else 'accepted')))
    elif not raised:
        w = settop if settop is not None else (norm[0][0] if norm else None)
        if g.top != w:
            f.append(('top-setter', '%s: after top=%r top is %r' % (lab, settop, g.top)))
    elif g.top != want_top:
        f.append(('top-setter', '%s: refused assignment changed top to %r' % (lab, g.top)))
    if g.triples != norm:
        f.append(('queries-mutate', lab))
    return f


# ---- set operations: model = dict(triples, top, epi {triple: markers-json | None=unknown}, meta) -----------------------

def _mk_graph(G):
    return graphm.graph_from_json({'triples': G['triples'], 'top': G['top'],
                                   'epi': [[list(t), ms] for t, ms in G['epi']], 'meta': G['meta']})


def _model_of(G):
    g0 = _mk_graph(G)
    return {'triples': list(g0.triples), 'top': G['top'], 'epi': {tuple(t): list(ms) for t, ms in G['epi']}, 'meta': dict(G['meta'])}


def _m_ior(a, b):
    aset = set(a['triples'])
    new = [t for t in b['triples'] if t not in aset]
    a['triples'] = a['triples'] + new
    for t, ms in b['epi'].items():
        if t in set(new):
            a['epi'][t] = None if ms is None else list(ms)
        else:
            a['epi'][t] = None         # shared (or foreign) entry: not asserted
    return a


def _m_isub(a, b):
    bset = set(b['triples'])
    a['triples'] = [t for t in a['triples'] if t not in bset]
    for t in bset:
        a['epi'].pop(t, None)
    occ = {v for t in a['triples'] for v in (t[0], t[2])}
    if a['top'] not in occ:
        a['top'] = None
    return a


def _m_copy(a, clear_meta=True):
    return {'triples': list(a['triples']), 'top': a['top'], 'epi': {t: (None if ms is None else list(ms)) for t, ms in a['epi'].items()},
            'meta': {} if clear_meta else dict(a['meta'])}


def _agree(g, M, lab, f):
    if g.triples != M['triples']:
        f.append(('setop-triples', '%s: %r, model %r' % (lab, short(g.triples, 200), short(M['triples'], 200)))); return
    if g._top != M['top']:
        f.append(('setop-top', '%s: explicit top %r, model %r' % (lab, g._top, M['top']))); return
    if dict(g.metadata) != M['meta']:
        f.append(('setop-metadata', '%s: %r, model %r' % (lab, g.metadata, M['meta']))); return
    actual = {t: [graphm.marker_to_json(m) for m in ms] for t, ms in g.epidata.items()}
    for t, ms in M['epi'].items():
        if ms is None:
            continue
        if actual.get(t, []) != ms and not (ms == [] and t not in actual):
            f.append(('setop-markers', '%s: markers of %r are %r, model %r' % (lab, t, actual.get(t), ms))); return
    for t in actual:
        if t not in M['epi'] and actual[t]:
            f.append(('setop-markers', '%s: unexpected markers on %r: %r' % (lab, t, actual[t]))); return


def run_history(case):
    f = []
    pool = [_mk_graph(G) for G in case['pool']]
    models_ = [_model_of(G) for G in case['pool']]
    n = len(pool)
    for step, op in enumerate(case['ops']):
        k = op[0]
        lab = 'step %d %r of %s' % (step + 1, op, short(case['ops'], 160))
        if k in ('or', 'sub'):
            i, j, dst = op[1] % n, op[2] % n, op[3] % n
            snap_i, snap_j = graphm.snapshot(pool[i]), graphm.snapshot(pool[j])
            res = (pool[i] | pool[j]) if k == 'or' else (pool[i] - pool[j])
            M = _m_copy(models_[i])
            M = _m_ior(M, models_[j]) if k == 'or' else _m_isub(M, models_[j])
            if graphm.snapshot(pool[i]) != snap_i or graphm.snapshot(pool[j]) != snap_j:
                f.append(('setop-mutates-operand', lab)); return f
            if res is pool[i] or res is pool[j]:
                f.append(('setop-returns-operand', lab)); return f
            pool[dst], models_[dst] = res, M
            _agree(res, M, lab, f)
        elif k in ('ior', 'isub'):
            i, j = op[1] % n, op[2] % n
            snap_j = graphm.snapshot(pool[j])
            before = pool[i]
            if k == 'ior':
                pool[i] |= pool[j]
                models_[i] = _m_ior(models_[i], models_[j])
            else:
                pool[i] -= pool[j]
                models_[i] = _m_isub(models_[i], models_[j])
            if pool[i] is not before:
                f.append(('inplace-returns-new-object', lab)); return f
            if i != j and graphm.snapshot(pool[j]) != snap_j:          # g -= g and g |= g are the same object on both sides
                f.append(('setop-mutates-operand', lab)); return f
            _agree(pool[i], models_[i], lab, f)
        elif k == 'query':
            # queries are an explicit step (not run after every operation) so that stale derived state between two
            # mutations would be observable
            i = op[1] % n
            M = models_[i]
            g = pool[i]
            vs = {t[0] for t in M['triples']} | ({M['top']} if M['top'] is not None else set())
            edges = [t for t in M['triples'] if t[1] != ':instance' and t[2] in vs]
            attrs = [t for t in M['triples'] if t[1] != ':instance' and t[2] not in vs]
            wt = M['top'] if M['top'] is not None else (M['triples'][0][0] if M['triples'] else None)
            cnt = {}
            if wt is not None:
                cnt[wt] = 1
            for t in edges:
                cnt[t[2]] = cnt.get(t[2], 0) + 1
            got = (g.variables(), [tuple(t) for t in g.edges()], [tuple(t) for t in g.attributes()], g.reentrancies(), g.top)
            want = (vs, edges, attrs, {v: c - 1 for v, c in cnt.items() if c >= 2}, wt)
            if got != want:
                f.append(('query-after-setops', '%s: %s, model %s' % (lab, short(got, 300), short(want, 300)))); return f
        elif k == 'top':
            i = op[1] % n
            v = op[2]
            vs = {t[0] for t in models_[i]['triples']} | ({models_[i]['top']} if models_[i]['top'] is not None else set())
            try:
                pool[i].top = v
                raised = False
            except GraphError:
                raised = True
            if raised != (v is not None and v not in vs):
                f.append(('top-setter', lab)); return f
            if not raised:
                models_[i]['top'] = v
            _agree(pool[i], models_[i], lab, f)
        if f:
            return f
        # every graph of the pool still agrees with its model (no action at a distance)
        for q in range(n):
            _agree(pool[q], models_[q], lab + ' [pool %d]' % q, f)
            if f:
                return f
    return f


def check(case):
    if case['k'] == 'q':
        return check_queries(case['triples'], case['top'], case.get('settop'))
    return run_history(case)


def nontrivial(case):
    if case['k'] == 'q':
        ts = [tuple(t) for t in case['triples']]
        srcs = {t[0] for t in ts}
        return len(set(ts)) < len(ts) or any(t[2] in srcs for t in ts)
    kinds = {op[0] for op in case['ops']}
    return bool(kinds & {'ior', 'isub'}) and bool(kinds & {'or', 'sub'})


def classes(case):
    if case['k'] == 'q':
        ts = [tuple(t) for t in case['triples']]
        out = ['queries', 'len:%d' % min(len(ts), 6)]
        if len(set(ts)) < len(ts): out.append('duplicates')
        if any(t[2] in {x[0] for x in ts} and 'instance' in t[1] for t in ts): out.append('variable-spelled-concept')
        if case['top'] is not None and case['top'] not in {t[0] for t in ts}: out.append('foreign-top')
        return out
    out = ['history'] + sorted({'op:' + op[0] for op in case['ops']})
    if any(op[0] in ('ior', 'isub') and op[1] % 3 == op[2] % 3 for op in case['ops']): out.append('in-place-with-itself')
    return out


SRC = ['a', 'b']
ROLES = [':instance', ':r', 'r']
TGT = ['a', 'b', 'x', None]
ALL = [[s, r, t] for s in SRC for r in ROLES for t in TGT]
TOPS = [None, 'a', 'b', 'z']


def _enum_chunks(tier):
    return [{'first': i} for i in range(-1, len(ALL))]


def _enum_cases(ch):
    if ch['first'] < 0:
        for top in TOPS:
            for st_ in TOPS:
                yield {'k': 'q', 'triples': [], 'top': top, 'settop': st_}
        return
    a = ALL[ch['first']]
    for l in range(0, 3):
        for tup in itertools.product(ALL, repeat=l):
            for ti, top in enumerate(TOPS):
                yield {'k': 'q', 'triples': [a] + [list(t) for t in tup], 'top': top, 'settop': TOPS[(ti + l + ch['first']) % 4]}


@st.composite
def _graph_json(draw, pool_triples, big=False):
    n = draw(st.integers(0, 6)) if not big else draw(st.integers(20, len(pool_triples)))
    ts = []
    for t in fy(draw, pool_triples)[:n]:
        ts.append(list(t))
    if big and draw(st.booleans()):
        # a duplicated triple in the graph (difference must remove every occurrence)
        ts.insert(draw(st.integers(0, len(ts))), list(ts[draw(st.integers(0, len(ts) - 1))]))
    epi = []
    for t in ts:
        if draw(st.integers(0, 2)) == 0:
            ms = draw(st.lists(st.sampled_from([['pop'], ['push', 'b'], ['push', 'c'], ['aln', None, [1]], ['raln', 'e.', [2, 3]]]), min_size=1, max_size=3))
            epi.append([t, ms])
    srcs = sorted({t[0] for t in ts})
    top = pick(draw, srcs + [None]) if srcs else None
    meta = draw(st.sampled_from([{}, {'id': '1'}, {'snt': 'x y', 'id': '2'}]))
    return {'triples': ts, 'top': top, 'epi': epi, 'meta': meta}


POOL_TRIPLES = [['a', ':instance', 'A'], ['b', ':instance', 'B'], ['c', ':instance', None], ['a', ':r', 'b'], ['b', ':r', 'c'], ['c', ':r', 'a'],
                ['a', ':s', 'x'], ['b', ':s', 1], ['a', ':r-of', 'c'], ['c', ':s', '"q"'], ['a', ':instance', 'b'], ['b', ':t', 'a']]


BIG_POOL = POOL_TRIPLES + [['n%d' % i, ':instance', 'c%d' % (i % 3)] for i in range(14)] + [['n%d' % i, ':r', 'n%d' % ((i * 5 + 1) % 14)] for i in range(14)] + \
    [['n%d' % i, ':s', 'v%d' % i] for i in range(14)] + [['a', ':t', 'n%d' % i] for i in range(6)]


@st.composite
def _random_q(draw):
    vs = ['a', 'b', 'c', 'd'] if draw(st.booleans()) else ['a', 'x1', 'n10', 'e2']
    roles = [':instance', 'instance', ':r', 'r', ':r-of', ':s', ':', '', 'ARG0', ':ARG0']
    tg = vs + ['x', 'y', None, 0, 1.5, '"s"']
    n = draw(st.integers(0, 9))
    out = []
    for _ in range(n):
        if out and draw(st.integers(0, 5)) == 0:
            out.append(list(pick(draw, out)))
        else:
            out.append([pick(draw, vs), pick(draw, roles), pick(draw, tg)])
    return {'k': 'q', 'triples': out, 'top': pick(draw, [None, None] + vs + ['z', '']), 'settop': pick(draw, [None] + vs + ['z', 'x', ''])}


@st.composite
def _random_hist(draw):
    big = draw(st.integers(0, 3)) == 0
    pool = [draw(_graph_json(BIG_POOL if big else POOL_TRIPLES, big=big and i == 0)) for i in range(3)]
    ops = []
    for _ in range(draw(st.integers(1, 8))):
        k = draw(st.sampled_from(['or', 'sub', 'ior', 'isub', 'top', 'query', 'isub', 'ior']))
        if k in ('or', 'sub'):
            ops.append([k, draw(st.integers(0, 2)), draw(st.integers(0, 2)), draw(st.integers(0, 2))])
        elif k == 'top':
            ops.append([k, draw(st.integers(0, 2)), draw(st.sampled_from(['a', 'b', 'c', None, 'z']))])
        elif k == 'query':
            ops.append([k, draw(st.integers(0, 2))])
        else:
            ops.append([k, draw(st.integers(0, 2)), draw(st.integers(0, 2))])
    if big and pool[0]['triples']:
        ts0 = pool[0]['triples']
        mode = draw(st.integers(0, 2))
        if mode == 0:
            # subtract exactly a triple that occurs (possibly twice) in the big graph
            dups = [t for t in ts0 if ts0.count(t) > 1] or ts0
            pool[1] = {'triples': [list(dups[draw(st.integers(0, len(dups) - 1))])], 'top': None, 'epi': [], 'meta': {}}
            ops.insert(draw(st.integers(0, len(ops))), [draw(st.sampled_from(['isub', 'sub'])), 0, 1] + ([draw(st.integers(0, 2))] if False else []))
            ops = [o if o[0] != 'sub' or len(o) == 4 else o + [2] for o in ops]
        elif mode == 1:
            # replace all triples of one source by as many triples of a new source, with queries around it
            srcs = sorted({t[0] for t in ts0})
            v = srcs[draw(st.integers(0, len(srcs) - 1))]
            mine = []
            for t in ts0:
                if t[0] == v and t not in mine:
                    mine.append(list(t))
            pool[1] = {'triples': mine, 'top': None, 'epi': [], 'meta': {}}
            fresh = [['zz', ':instance', 'Z'], ['zz', ':r', 'a'], ['zz', ':s', 'w'], ['zz', ':t', 'b'], ['zz', ':u', 1], ['zz', ':v', 'n1'], ['zz', ':w', 'n2']]
            nrem = sum(1 for t in ts0 if t[0] == v)
            pool[2] = {'triples': fresh[:min(nrem, len(fresh))], 'top': None, 'epi': [], 'meta': {}}
            ops = ops[:2] + [['query', 0], ['isub', 0, 1], ['ior', 0, 2], ['query', 0]] + ops[2:]
    if draw(st.integers(0, 2)) == 0:
        # query / mutate twice / query: derived state must follow the triples even when their number comes back to what it was
        i, j, k2 = draw(st.integers(0, 2)), draw(st.integers(0, 2)), draw(st.integers(0, 2))
        if draw(st.booleans()):
            pat = [['query', i], ['isub', i, j], ['ior', i, k2], ['query', i]]
        else:
            d = draw(st.integers(0, 2))
            pat = [['query', i], ['sub', i, j, d], ['or', d, k2, d], ['query', d]]
        at = draw(st.integers(0, len(ops)))
        ops[at:at] = pat
    return {'k': 'h', 'pool': pool, 'ops': ops}


def _machine(report):
    class GraphAlgebra(RuleBasedStateMachine):
        """Pool of three graphs; every rule records one JSON operation; the history is replayed against the list/set model
        (comparison after every step) when the run ends."""

        def __init__(self):
            super().__init__()
            self.case = None

        @initialize(data=st.data())
        def start(self, data):
            self.case = {'k': 'h', 'pool': [data.draw(_graph_json(POOL_TRIPLES)) for _ in range(3)], 'ops': []}

        @rule(i=st.integers(0, 2), j=st.integers(0, 2), dst=st.integers(0, 2))
        def union(self, i, j, dst): self.case['ops'].append(['or', i, j, dst])

        @rule(i=st.integers(0, 2), j=st.integers(0, 2), dst=st.integers(0, 2))
        def difference(self, i, j, dst): self.case['ops'].append(['sub', i, j, dst])

        @rule(i=st.integers(0, 2), j=st.integers(0, 2))
        def union_inplace(self, i, j): self.case['ops'].append(['ior', i, j])

        @rule(i=st.integers(0, 2), j=st.integers(0, 2))
        def difference_inplace(self, i, j): self.case['ops'].append(['isub', i, j])

        @rule(i=st.integers(0, 2), v=st.sampled_from(['a', 'b', 'c', None, 'z']))
        def set_top(self, i, v): self.case['ops'].append(['top', i, v])

        @rule(i=st.integers(0, 2))
        def query(self, i): self.case['ops'].append(['query', i])

        def teardown(self):
            if self.case is not None and self.case['ops']:
                report(self.case)

    return GraphAlgebra


def stages(tier):
    return [
        Enum('all-short-lists', _enum_chunks, _enum_cases,
             'every list of <= 3 triples over sources {a,b} x roles {:instance,:r,r} x targets {a,b,x,None}, x every top in {None,a,b,z}'),
        Hyp('random-lists', _random_q, 4000, 150000),
        Hyp('random-histories', _random_hist, 2000, 100000),
        Machine('set-operation-machine', _machine, (2000, 20), (40000, 50)),
    ]
