"""C12  Every transformation returns a well-formed graph that serialises faithfully."""
import itertools

from hypothesis import strategies as st

import penman
from penman import layout, transform
from penman.exceptions import LayoutError
from penman.graph import Graph
from penman.tree import Tree

from pv.gen import graphs, models, trees
from pv.gen.base import pick
from pv.harness import Enum, Hyp
from pv.props.common import fmt, noise_calls, short, tree_classes
from pv.ref import graphm, interp
from pv.ref.role import build_model, build_table, roles_for

ID = 'C12'
TECHNIQUE = 'invariant oracle after every step of generated transformation programs (same top, every source a node with one instance triple, connected, encodes, decode(encode(h)) == h) plus inverse oracles for reify_attributes and indicate_branches; Hypothesis graphs x all programs of length <= 3 and sampled longer ones'
RULE = ('cases: well-formed connected graphs (decoded from generated trees incl. dereifiable concepts and :superset, the same marker-free, '
        'edited by appending triples or choosing an explicit non-default top, and hand-built) x programs: every sequence of length <= 3 '
        '(chosen by index) and sampled sequences of length 4-5 over {reify_edges, dereify_edges, reify_attributes, indicate_branches (at most '
        'once)} x models {default, amr, mini, random}. Non-trivial: the program changes the triple list at >= 1 step. Distinct by case content.')
ASSUMPTIONS = ['well-formedness and connectivity of intermediate graphs are judged by the reference graph model',
               'content equality after encode/decode as in C03 (up to the model\'s single deinversion, constants by written form)',
               'deinverting models only']

OPS = ['reify_edges', 'dereify_edges', 'reify_attributes', 'indicate_branches']
PROGRAMS = [list(p) for n in range(1, 4) for p in itertools.product(OPS, repeat=n) if p.count('indicate_branches') <= 1]


def _apply(op, g, m):
    if op == 'reify_edges':
        return transform.reify_edges(g, m)
    if op == 'dereify_edges':
        return transform.dereify_edges(g, m)
    if op == 'reify_attributes':
        return transform.reify_attributes(g)
    return transform.indicate_branches(g, m)


def _wf(h, top, spec):
    """None or a description of what is ill-formed in graph h"""
    ts = h.triples
    vs = {t[0] for t in ts} | ({h._top} if h._top is not None else set())      # reference model, not h.variables()
    inst = {}
    for s, r, t in ts:
        if r == ':instance':
            inst[s] = inst.get(s, 0) + 1
    for s, r, t in ts:
        if inst.get(s, 0) != 1:
            return 'source %r of %r has %d instance triples' % (s, (s, r, t), inst.get(s, 0))
    htop = h._top if h._top is not None else (ts[0][0] if ts else None)
    if htop != top:
        return 'top %r became %r' % (top, htop)
    if ts and graphm.weakly_connected_from(ts, htop, vs) != vs:
        return 'not weakly connected'
    return None


def _build(case, m):
    if case['src'] == 'built':
        return Graph(graphm.ttriples(case['g']['triples']), top=case['g'].get('top')), 'Graph(%s, top=%r)' % (short(case['g']['triples'], 200), case['g'].get('top'))
    node = interp.to_node(case['tree'])
    g = layout.interpret(Tree(node), m)
    lab = fmt(node)
    if case.get('strip'):
        g = Graph(g.triples, top=g.top)
        lab += ' (stripped)'
    for tr in case.get('append', []):
        tr = tuple(tr)
        if tr not in g.triples and tr[0] in g.variables():
            g.triples.append(tr)
            lab += ' +%r' % (tr,)
    if case.get('top') is not None:
        vs = sorted(g.variables(), key=repr)
        g.top = vs[case['top'] % len(vs)]
        lab += ' top=%r' % g.top
    if case.get('swap') is not None:
        # inspect the graph, then replace one attribute (x r c) by an edge to a new node in place: same number of triples,
        # different variables -- derived state must follow
        g.variables(); g.edges(); g.attributes(); g.reentrancies()
        vs = g.variables()
        attrs = [i for i, t in enumerate(g.triples) if t[1] != ':instance' and t[2] not in vs and t[2] is not None]
        insts = [i for i, t in enumerate(g.triples) if t[1] == ':instance' and t[0] != g.top and not any(u[2] == t[0] or (u[0] == t[0] and u[1] != ':instance') for u in g.triples)]
        if case['swap'] % 2 and 'nw' not in vs and not any(t[2] == 'nw' for t in g.triples):
            # rename one node in place, everywhere: same number of triples, different set of variables
            from penman.layout import Push
            v = sorted(vs, key=repr)[case['swap'] % len(vs)]
            ren = lambda x: 'nw' if x == v else x
            newt = [(ren(s_), r_, ren(t_) if r_ != ':instance' else t_) for s_, r_, t_ in g.triples]
            newe = {}
            for old, new in zip(g.triples, newt):
                if old in g.epidata:
                    newe[new] = [Push('nw') if isinstance(e, Push) and e.variable == v else e for e in g.epidata[old]]
            g.triples[:] = newt
            g.epidata.clear(); g.epidata.update(newe)
            if g._top == v:
                g._top = 'nw'
            lab += ' renamed %r to nw in place' % (v,)
        elif attrs and 'nw' not in vs:
            i = attrs[case['swap'] % len(attrs)]
            s_, r_, c_ = g.triples[i]
            old = g.triples[i]
            g.triples[i] = (s_, r_, 'nw')
            g.epidata.pop(old, None)
            g.triples.append(('nw', ':instance', c_))
            lab += ' swapped %r for a node' % (old,)
    return g, lab


def check(case):
    spec = case['model']
    m = build_model(spec)
    R = roles_for(spec)
    if case['src'] != 'built':
        if interp.wellformed(interp.to_node(case['tree']), spec) is not None:
            return []
    g, lab = _build(case, m)
    if _wf(g, g.top, spec) is not None or len(set(g.triples)) != len(g.triples):
        return []
    noise_calls(m, graph=g, roles=[t[1] for t in g.triples])
    top = g.top
    f = []
    h = g
    prog = case['program']
    for i, op in enumerate(prog):
        before = h
        snap = graphm.snapshot(before)
        h = _apply(op, before, m)
        where = '%s after %s' % (lab, '>'.join(prog[:i + 1]))
        if graphm.snapshot(before) != snap:
            f.append(('transform-mutates-argument:' + op, where))
        why = _wf(h, top, spec)
        if why:
            f.append(('not-well-formed:' + op, '%s: %s; triples %s' % (where, why, short(h.triples, 300))))
            return f
        if len(set(h.triples)) == len(h.triples):
            try:
                s = penman.encode(h, model=m, indent=None)
            except LayoutError as e:
                f.append(('encode-raises:' + op, '%s: %s' % (where, e)))
                return f
            g2 = penman.decode(s, model=m)
            d = graphm.content_diff(h.triples, h.top, g2.triples, g2.top, spec, explicit_top_a=h.top)
            if d:
                f.append(('encode-decode-content:' + op, '%s -> %s : %s' % (where, s, d)))
                return f
        if op == 'reify_attributes':
            vs = h.variables()
            left = [t for t in h.triples if t[1] != ':instance' and t[2] not in vs]
            if left:
                f.append(('attribute-left', '%s: %r' % (where, left[:3])))
            # contract the fresh nodes: each new variable v has exactly (x r v) and (v :instance c)  ->  (x r c)
            fresh = vs - before.variables()
            concept = {t[0]: t[2] for t in h.triples if t[1] == ':instance' and t[0] in fresh}
            back = []
            for t in h.triples:
                if t[0] in fresh:
                    continue
                if t[1] != ':instance' and t[2] in fresh:
                    back.append((t[0], t[1], concept.get(t[2])))
                else:
                    back.append(t)
            if back != before.triples:
                f.append(('reify-attributes-inverse', '%s: contracting gives %s, original %s' % (where, short(back, 200), short(before.triples, 200))))
        if op == 'indicate_branches':
            npush = sum(1 for t in before.triples for e in before.epidata.get(t, [])[:] if isinstance(e, layout.Push))
            npush = sum(1 for t in before.triples if any(isinstance(e, layout.Push) for e in before.epidata.get(t, [])))
            tops = [t for t in h.triples if t[1] == m.top_role]
            old_tops = [t for t in before.triples if t[1] == m.top_role]
            if len(tops) - len(old_tops) != npush:
                f.append(('indicate-branches-count', '%s: %d Push-carrying triples, %d new %s triples' % (where, npush, len(tops) - len(old_tops), m.top_role)))
            else:
                # removing the inserted triples restores the list: each inserted triple directly precedes its pushing triple
                back = []
                pend = None
                ok = True
                it = list(h.triples)
                k = 0
                out = []
                bi = 0
                for t in it:
                    if bi < len(before.triples) and t == before.triples[bi]:
                        out.append(t); bi += 1
                    elif t[1] == m.top_role:
                        continue
                    else:
                        ok = False
                        break
                if not ok or out != before.triples:
                    f.append(('indicate-branches-inverse', '%s: %s vs original %s' % (where, short(h.triples, 200), short(before.triples, 200))))
        if f:
            return f
    return f


def _changes(case):
    spec = case['model']
    m = build_model(spec)
    try:
        g, _ = _build(case, m)
        h = g
        for op in case['program']:
            h2 = _apply(op, h, m)
            if h2.triples != h.triples:
                return True
            h = h2
    except Exception:
        return True
    return False


def nontrivial(case):
    if case['src'] != 'built' and interp.wellformed(interp.to_node(case['tree']), case['model']) is not None:
        return False
    return _changes(case)


def classes(case):
    out = ['src:' + case['src'], 'model:' + case['model'].get('name', 'custom'), 'len:%d' % len(case['program'])]
    out += ['op:' + o for o in set(case['program'])]
    if case['src'] != 'built':
        node = interp.to_node(case['tree'])
        why = interp.wellformed(node, case['model'])
        if why:
            return ['skipped:' + why]
        if case.get('strip'): out.append('stripped')
        if case.get('append'): out.append('appended-triples')
        if case.get('top') is not None: out.append('explicit-top')
        deconcepts = {r[1] for r in build_table(case['model'])['reifications']}
        rd = interp.interpret(node, case['model'])
        if any(t[1] == ':instance' and t[2] in deconcepts for t in rd.triples): out.append('dereifiable-concept')
        if any(t[1] == ':superset' for t in rd.triples): out.append('superset')
    if _changes(case): out.append('program-changes-graph')
    return out


C12_CONCEPTS = trees.CONCEPTS + ['have-mod-91', 'include-91', 'own-01', 'have-org-role-91', 'be-located-at-91', 'accompany-01', 'have-mod-91']
C12_ROLES = [':ARG0', ':ARG1', ':ARG2', ':mod', ':domain', ':op1', ':polarity', ':quant', ':time', ':location', ':part', ':name', ':poss',
             ':subset', ':superset', ':accompanier', ':role', ':employed-by', ':beneficiary', ':foo', ':']


@st.composite
def _cases(draw, large=False):
    c = draw(st.integers(0, 9))
    if c <= 5:
        spec = {'name': draw(st.sampled_from(['amr', 'amr', 'amr', 'mini']))}
    elif c == 6:
        spec = {'name': 'default'}
    else:
        spec = draw(models.custom_tables())
        if spec.get('noop'):
            spec = dict(spec, noop=False)
    R = roles_for(spec)
    table = build_table(spec)
    if spec['name'] in ('amr', 'mini'):
        cand = C12_ROLES
    else:
        cand = list(spec.get('pool') or []) + [':ARG0', ':foo'] + [':A1', ':A2', ':src', ':tgt']
    cand = list(cand) + models.case_variants(table)
    fwd = [r for r in dict.fromkeys(cand) if R.is_canonical_inversion(r) and not R.inverted(r)]
    inv = {r: R.invert(r) for r in fwd if R.inverted(R.invert(r)) and R.is_canonical_inversion(R.invert(r))}
    concepts = C12_CONCEPTS if spec['name'] != 'custom' else trees.CONCEPTS + [r[1] for r in table['reifications']]
    FAV = [['dereify_edges', 'reify_edges'], ['dereify_edges', 'reify_edges', 'dereify_edges'], ['reify_edges', 'dereify_edges', 'reify_edges'],
           ['dereify_edges', 'indicate_branches'], ['reify_edges', 'reify_attributes', 'dereify_edges'], ['dereify_edges', 'reify_attributes', 'reify_edges']]
    c2 = draw(st.integers(0, 7))
    if c2 <= 1:
        prog = FAV[draw(st.integers(0, len(FAV) - 1))]
    elif c2 == 2:
        prog = [pick(draw, OPS) for _ in range(draw(st.integers(4, 5)))]
        while prog.count('indicate_branches') > 1:
            prog.remove('indicate_branches')
    else:
        prog = PROGRAMS[draw(st.integers(0, len(PROGRAMS) - 1))]
    if table['reifications'] and draw(st.integers(0, 9)) == 0:
        # a hand-built graph whose (implicit or explicit) top is itself a reified-looking node
        role, concept, sr, tr = pick(draw, table['reifications'])
        ts = [['r', ':instance', concept], ['r', sr, 'a'], ['r', tr, 'b'], ['a', ':instance', 'alpha'], ['b', ':instance', 'beta']]
        return {'src': 'built', 'g': {'triples': ts, 'top': pick(draw, [None, None, 'r'])}, 'model': spec,
                'program': pick(draw, [['dereify_edges'], ['dereify_edges', 'reify_edges'], ['dereify_edges', 'reify_attributes']])}
    if draw(st.integers(0, 6)) == 0:
        g = draw(graphs.wf_graphs(spec, max_vars=4, role_pool=(fwd, inv), concepts=[c for c in concepts if not c.startswith('"')] + [None]))
        return {'src': 'built', 'g': g, 'model': spec, 'program': prog}
    j = draw(trees.wf_trees(spec, max_nodes=30 if large else 6, role_pool=(fwd, inv), concepts=concepts, emptyconcept=False, wide=8 if large else 3))
    fav = prog in FAV
    if table['reifications'] and (fav or draw(st.booleans())):
        # collapsible reified nodes written in the text; with the favoured program orders more often along the rightmost path
        j = trees.reify_in_tree(draw, j, table, prob=(1, 3) if draw(st.booleans()) else (2, 3), tail=draw(st.integers(0, 2 if not fav else 1)) == 0, twins=True)
    if draw(st.integers(0, 7)) == 0:
        j = trees.add_decoy(draw, j, table)
    case = {'src': 'tree', 'tree': j, 'model': spec, 'program': prog, 'strip': draw(st.integers(0, 3)) == 0}
    if draw(st.integers(0, 3)) == 0:
        vs = interp.node_vars(interp.to_node(j))
        case['append'] = [[pick(draw, vs), pick(draw, fwd), draw(st.sampled_from(['new', '"n s"', '9'] + vs))]]
    elif fav and table['reifications'] and draw(st.booleans()):
        # a marker-less re-entrancy with a reifiable role (its orientation has to be worked out from the node contexts)
        vs = interp.node_vars(interp.to_node(j))
        rr = [r[0] for r in table['reifications'] if r[0] in fwd]
        if rr and len(vs) >= 2:
            case['append'] = [[pick(draw, vs), pick(draw, rr), pick(draw, vs)]]
    if draw(st.integers(0, 3)) == 0:
        case['top'] = draw(st.integers(0, 8))
    if draw(st.integers(0, 3)) == 0:
        case['swap'] = draw(st.integers(0, 8))
    return case


FAV_PROGRAMS = [['dereify_edges', 'reify_edges'], ['dereify_edges', 'reify_edges', 'dereify_edges'], ['reify_edges', 'dereify_edges', 'reify_edges'],
                ['dereify_edges', 'indicate_branches'], ['dereify_edges', 'reify_attributes', 'reify_edges'], ['dereify_edges']]


def _nested_chunks(tier):
    n = 5 if tier == 'quick' else 9
    return [{'i': i, 'n': n} for i in range(n)]


def _nested_cases(ch):
    """Reified relations nested in each other at the very end of the text (the last triple closes several nodes at once), with a
    marker-less reifiable re-entrancy before or after them, under the program orders that collapse first and reify afterwards."""
    table = build_table({'name': 'amr'})
    reifs = table['reifications'][:ch['n']]
    role1, c1, s1, t1 = reifs[ch['i']]
    for role2, c2, s2, t2 in reifs:
        for depth3 in (False, True):
            for last in ('-', ['c', [['/', 'gamma']]]):
                inner = [s2 + '-of', ['_2', [['/', c2], [t2, last]]]]
                if depth3:
                    inner = [s2 + '-of', ['_2', [['/', c2], [t2, ['d', [['/', 'delta'], [s1 + '-of', ['_3', [['/', c1], [t1, last]]]]]]]]]]
                nested = [s1 + '-of', ['_', [['/', c1], [t1, ['b', [['/', 'beta'], inner]]]]]]
                for where in (0, 1):
                    re_ent = [role2, 'b']
                    brs = [['/', 'alpha'], re_ent, nested] if where == 0 else [['/', 'alpha'], nested, re_ent]
                    for prog in FAV_PROGRAMS:
                        yield {'src': 'tree', 'tree': ['a', brs], 'model': {'name': 'amr'}, 'program': prog, 'strip': False}


def stages(tier):
    return [Hyp('programs', _cases, 8000, 200000), Hyp('programs-large', lambda: _cases(large=True), 200, 10000),
            Enum('nested-reifications-at-the-end', _nested_chunks, _nested_cases,
                 'AMR: every pair of the first 5 (thorough: 9) reifications nested in each other 2 or 3 deep at the end of the text, a '
                 'marker-less reifiable re-entrancy before or after, six collapse-first program orders')]
