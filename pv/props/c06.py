"""C06  Layout markers shape the text but never its content; encoding is total."""
from hypothesis import strategies as st
from hypothesis.stateful import RuleBasedStateMachine, initialize, invariant, precondition, rule

import penman
from penman import layout
from penman.exceptions import LayoutError
from penman.graph import Graph
from penman.tree import Tree

from pv.gen import graphs, models, trees
from pv.gen.base import fy, pick
from pv.harness import Fuzz, Hyp, Machine
from pv.props.common import fmt, short, tree_classes
from pv.ref import graphm, interp
from pv.ref.role import build_model, roles_for

ID = 'C06'
TECHNIQUE = 'metamorphic oracle over marker edit scripts (any corruption of Push/POP markers => same decoded content from every top), totality/error-precision oracle against a reference connectivity model over arbitrary triple lists, and a Hypothesis rule-based state machine generating edit histories'
RULE = ('cases: (1) graph decoded from a well-formed tree + an edit script over its markers (drop, add Push(v) for a variable '
        'of the graph or an unknown name, add POPs, swap / duplicate marker lists, permute triples under fixed markers, '
        'append marker-less triples), every variable tried as top; (2) arbitrary triple lists (duplicates, missing instance '
        'triples, over-inverted roles, disconnected parts; half of them built connected) with random markers, Graph top and '
        'requested top in variables + {None, unknown}; (3) rule-based state machine histories of edits (append/delete/move '
        'triple, edit markers, set top), oracle after every step. Non-trivial: the edit script changes the marker multiset '
        'or the order, or the list is disconnected/ill-formed. Distinct by case content.')
ASSUMPTIONS = ['Push(x) where x is a NON-variable target of its triple is not a corruption: tests/test_codec.py::test_encode pins '
               'that it creates the node (x); such markers are not generated',
               'reference for the error clause: variables = sources + explicit Graph top; edges = non-instance triples whose target '
               'is a variable; encoding must raise LayoutError iff the requested top is not a variable or some variable is not '
               'weakly connected to it (an empty graph encodes as "()"/"(top)" when no other top is requested)',
               'lists are <= 60 triples so CPython recursion limits are out of reach']


# ---- applying edit operations to a JSON graph {'triples', 'top', 'epi': [[triple, [markers]], ...]} -----------------

def _epi_get(G, tr):
    for e in G['epi']:
        if e[0] == tr:
            return e[1]
    e = [list(tr), []]
    G['epi'].append(e)
    return e[1]


def apply_op(G, op, spec, restricted=True):
    """Mutates G.  Returns True if the op changed something that matters (markers, order, triples)."""
    ts = G['triples']
    k = op[0]
    n = len(ts)
    if k == 'drop' and n:
        ms = _epi_get(G, ts[op[1] % n])
        keep = [m for m in ms if m[0] not in ('push', 'pop')]
        ch = keep != ms
        ms[:] = keep
        return ch
    if k == 'drop-all':
        ch = False
        for e in G['epi']:
            keep = [m for m in e[1] if m[0] not in ('push', 'pop')]
            ch |= keep != e[1]
            e[1][:] = keep
        return ch
    if k == 'push' and n:
        tr = ts[op[1] % n]
        vs = sorted({t[0] for t in ts} | ({G['top']} if G['top'] is not None else set()), key=repr)
        v = vs[op[2] % len(vs)] if op[2] >= 0 and vs else 'zz%d' % (-op[2])
        if v == tr[2] and v not in vs:
            return False
        ms = _epi_get(G, tr)
        ms.insert(op[3] % (len(ms) + 1), ['push', v])
        return True
    if k == 'pop' and n:
        ms = _epi_get(G, ts[op[1] % n])
        for _ in range(op[2]):
            ms.append(['pop'])
        return True
    if k == 'swap' and n >= 2:
        a, b = ts[op[1] % n], ts[op[2] % n]
        if a == b:
            return False
        ma, mb = _epi_get(G, a), _epi_get(G, b)
        la = [m for m in ma if m[0] in ('push', 'pop')]
        lb = [m for m in mb if m[0] in ('push', 'pop')]
        # a Push must still name a variable or an unknown name, never a constant target: swap only layout markers whose
        # Push variables are variables of the graph (they are: they came from the graph)
        ma[:] = [m for m in ma if m[0] not in ('push', 'pop')] + lb
        mb[:] = [m for m in mb if m[0] not in ('push', 'pop')] + la
        return la != lb
    if k == 'dup' and n:
        ms = _epi_get(G, ts[op[1] % n])
        lay = [m for m in ms if m[0] in ('push', 'pop')]
        ms.extend(lay)
        return bool(lay)
    if k == 'move' and n >= 2:
        i, j = op[1] % n, op[2] % n
        if i == j:
            return False
        t = ts.pop(i)
        ts.insert(j, t)
        return True
    if k == 'perm' and n >= 2:
        p = [i for i in op[1] if i < n]
        rest = [i for i in range(n) if i not in set(p)]
        new = [ts[i] for i in p + rest]
        ch = new != ts
        ts[:] = new
        return ch
    if k == 'rename' and n:
        # rename one variable everywhere (triples, marker keys, Push markers, top): same number of triples, new variable set
        vs = sorted({t[0] for t in ts}, key=repr)
        v = vs[op[1] % len(vs)]
        new = 'nw%d' % op[2]
        if new in vs or any(t[2] == new for t in ts):
            return False
        ren = lambda x: new if x == v else x
        for t in ts:
            t[0] = ren(t[0])
            if t[1] != ':instance':
                t[2] = ren(t[2])
        for e in G['epi']:
            e[0][0] = ren(e[0][0])
            if e[0][1] != ':instance':
                e[0][2] = ren(e[0][2])
            for mk in e[1]:
                if mk[0] == 'push' and mk[1] == v:
                    mk[1] = new
        if G['top'] == v:
            G['top'] = new
        return True
    if k == 'top':
        vs = sorted({t[0] for t in ts}, key=repr)
        if vs:
            G['top'] = vs[op[1] % len(vs)]
            return True
        return False
    if k == 'add-attr' and n:
        vs = sorted({t[0] for t in ts}, key=repr)
        s = vs[op[1] % len(vs)]
        tr = [s, op[2], op[3]]
        if op[3] in vs or tr in ts:
            return False
        ts.append(tr)
        return True
    if k == 'add-edge' and n:
        R = roles_for(spec)
        vs = sorted({t[0] for t in ts}, key=repr)
        s, t = vs[op[1] % len(vs)], vs[op[3] % len(vs)]
        r = op[2]
        if R.inverted(r) and s == t:
            return False
        key = [t, r[:-3], s] if R.inverted(r) else [s, r, t]
        alt = [key[2], R.invert(key[1]), key[0]]
        if key in ts or alt in ts or [s, r, t] in ts or not R.is_canonical_inversion(r):
            return False
        ts.append([s, r, t])
        return True
    if k == 'del' and n:
        i = op[1] % n
        tr = ts[i]
        if restricted:
            vs = {t[0] for t in ts}
            if tr[1] == ':instance':
                return False
            if tr[2] in vs:
                rest = ts[:i] + ts[i + 1:]
                top = G['top'] if G['top'] is not None else ts[0][0]
                vs_rest = {t[0] for t in rest} | {top}
                if graphm.weakly_connected_from([tuple(x) for x in rest], top, vs_rest) != vs_rest or ts.count(tr) > 1:
                    return False
        del ts[i]
        if tr not in ts:
            G['epi'] = [e for e in G['epi'] if e[0] != tr]
        return True
    return False


def _to_graph(G):
    """Build the Graph; a Push(x) whose x is (no longer) a variable but is the target of its triple is the documented
    node-creating marker, not a corruption (see ASSUMPTIONS), so it is removed before judging."""
    gvars = {t[0] for t in G['triples']} | ({G['top']} if G['top'] is not None else set())
    epi = []
    for tr, ms in G['epi']:
        epi.append([tr, [mk for mk in ms if not (mk[0] == 'push' and mk[1] not in gvars and mk[1] == tr[2])]])
    return graphm.graph_from_json(dict(G, epi=epi))


def _content_ok(G, spec, m, label):
    g = _to_graph(G)
    f = []
    import copy as _copy
    import pickle as _pickle
    for how, h in (('deepcopy', _copy.deepcopy(g)), ('pickle', _pickle.loads(_pickle.dumps(g)))):
        a, b = _encode_outcome(g, m), _encode_outcome(h, m)
        if a != b:
            return [('copied-graph-encodes-differently', '%s: original %s, %s %s' % (label, short(a, 200), how, short(b, 200)))]
    for v in sorted(g.variables(), key=repr):
        try:
            s = penman.encode(g, top=v, model=m, indent=None)
        except LayoutError as e:
            return [('encode-raises', '%s top=%r: LayoutError: %s' % (label, v, e))]
        g2 = penman.decode(s, model=m)
        d = graphm.content_diff(g.triples, v, g2.triples, g2.top, spec, explicit_top_a=v)
        if d:
            return [('content-changed', '%s top=%r -> %s : %s' % (label, v, s, d))]
    return f


def _error_precision(G, reqtop, m, label):
    g = _to_graph(G)
    vs = g.variables()
    top = reqtop if reqtop is not None else g.top
    if not g.triples and top == g.top:
        should_fail = False
    elif top not in vs:
        should_fail = True
    else:
        should_fail = graphm.weakly_connected_from(g.triples, top, vs) != vs
    try:
        s = penman.encode(g, top=reqtop, model=m, indent=None)
        raised = False
    except LayoutError:
        raised = True
    if raised and not should_fail:
        return [('spurious-layout-error', '%s reqtop=%r: connected graph refused' % (label, reqtop))]
    if not raised and should_fail:
        return [('missing-layout-error', '%s reqtop=%r -> %s although %s' % (
            label, reqtop, s, 'top is not a variable' if top not in vs else 'some variable is not connected to the top'))]
    return []


def _encode_outcome(g, m):
    try:
        g.variables(); g.edges(); g.attributes()
        return ('ok', penman.encode(g, model=m, indent=None))
    except LayoutError:
        return ('layout-error',)


def _label(G):
    return 'Graph(%s, top=%r, epi=%s)' % (short(G['triples'], 240), G['top'], short([e for e in G['epi'] if e[1]], 200))


def _init_graph(case, m):
    node = interp.to_node(case['tree'])
    g = layout.interpret(Tree(node), m)
    G = graphm.graph_to_json(g)
    G['meta'] = {}
    return G


def check(case):
    spec = case['model']
    m = build_model(spec)
    k = case['k']
    if k == 'edit':
        node = interp.to_node(case['tree'])
        if interp.wellformed(node, spec) is not None:
            return []
        G = _init_graph(case, m)
        for op in case['ops']:
            apply_op(G, op, spec)
        return _content_ok(G, spec, m, fmt(node) + ' ops=' + short(case['ops'], 200))
    if k == 'arb':
        G = {'triples': [list(t) for t in case['triples']], 'top': case['gtop'], 'epi': []}
        g0 = Graph(graphm.ttriples(G['triples']))
        G['triples'] = graphm.jtriples(g0.triples)       # roles normalised (leading colon) as Graph does
        gvars = {t[0] for t in G['triples']} | ({G['top']} if G['top'] is not None else set())
        for idx, mk in case['epi']:
            if G['triples']:
                tr = G['triples'][idx % len(G['triples'])]
                if mk[0] == 'push' and mk[1] not in gvars and mk[1] == tr[2]:
                    continue    # Push(non-variable target) creates the node (x): documented behaviour, not a corruption
                _epi_get(G, tr).append(mk)
        return _error_precision(G, case['reqtop'], m, _label(G))
    if k == 'hist':
        node = interp.to_node(case['tree'])
        if interp.wellformed(node, spec) is not None:
            return []
        G = _init_graph(case, m)
        free = case.get('free', False)
        live = _to_graph(G)
        _encode_outcome(live, m)
        for i, op in enumerate(case['ops']):
            apply_op(G, op, spec, restricted=not free)
            lab = '%s after %d ops %s' % (fmt(node), i + 1, short(case['ops'][:i + 1], 200))
            # the same edit applied in place to one long-lived Graph object (queried and encoded after every step):
            # it must behave exactly like a graph built afresh from the edited data
            fresh = _to_graph(G)
            live.triples[:] = fresh.triples
            live.epidata.clear(); live.epidata.update({k: list(v) for k, v in fresh.epidata.items()})
            live._top = fresh._top
            a, b = _encode_outcome(live, m), _encode_outcome(fresh, m)
            if a != b:
                return [('edited-object-differs-from-fresh-graph', '%s: edited object %s, fresh graph %s' % (lab, short(a, 200), short(b, 200)))]
            f = _error_precision(G, None, m, lab)
            if not f and not free:
                f = _content_ok(G, spec, m, lab)
            if f:
                return f
        return []
    raise ValueError(k)


def nontrivial(case):
    k = case['k']
    if k == 'arb':
        return len(case['triples']) >= 2
    node = interp.to_node(case['tree'])
    if interp.wellformed(node, case['model']) is not None:
        return False
    return len(case['ops']) >= 1 and len(interp.node_vars(node)) >= 2


def classes(case):
    k = case['k']
    out = ['kind:' + k, 'model:' + case['model'].get('name', 'custom')]
    if k == 'arb':
        G = {'triples': [list(t) for t in case['triples']], 'top': case['gtop']}
        g = Graph(graphm.ttriples(G['triples']), top=case['gtop'])
        vs = g.variables()
        top = case['reqtop'] if case['reqtop'] is not None else g.top
        if not g.triples:
            out.append('empty')
        elif top not in vs:
            out.append('top-not-variable')
        elif graphm.weakly_connected_from(g.triples, top, vs) != vs:
            out.append('disconnected')
        else:
            out.append('connected')
        if case['epi']: out.append('with-markers')
        if len(set(map(tuple, g.triples))) != len(g.triples): out.append('duplicate-triples')
        return out
    node = interp.to_node(case['tree'])
    why = interp.wellformed(node, case['model'])
    if why:
        return ['skipped:' + why]
    out += ['op:' + op[0] for op in case['ops']]
    out += tree_classes(node)
    if case.get('free'): out.append('free-deletes')
    return out


# ---- generators ---------------------------------------------------------------------------------------------------

ADD_ROLES = [':new', ':ARG0', ':mod', ':r', ':new-of', ':ARG9']
ADD_CONSTS = ['fresh', '"new s"', '7', '-']


def _op(draw, spec=None):
    i = st.integers(0, 30)
    k = draw(st.sampled_from(['drop', 'drop', 'drop-all', 'push', 'push', 'push', 'pop', 'pop', 'swap', 'swap', 'dup',
                              'move', 'perm', 'top', 'add-attr', 'add-edge', 'rename']))
    if k in ('drop', 'dup'):
        return [k, draw(i)]
    if k == 'drop-all':
        return [k]
    if k == 'push':
        return [k, draw(i), draw(st.integers(-2, 12)), draw(st.integers(0, 3))]
    if k == 'pop':
        return [k, draw(i), draw(st.integers(1, 3))]
    if k in ('swap', 'move'):
        return [k, draw(i), draw(i)]
    if k == 'perm':
        return [k, fy(draw, list(range(draw(st.integers(2, 12)))))]
    if k == 'top':
        return [k, draw(i)]
    if k == 'rename':
        return [k, draw(i), draw(st.integers(0, 3))]
    if k == 'add-attr':
        return [k, draw(i), draw(st.sampled_from(ADD_ROLES)), draw(st.sampled_from(ADD_CONSTS))]
    return ['add-edge', draw(i), draw(st.sampled_from(ADD_ROLES)), draw(i)]


@st.composite
def _edit_cases(draw):
    spec = draw(models.model_specs(noop=False))
    if spec.get('noop'):
        spec = dict(spec, noop=False)
    j = draw(trees.wf_trees(spec, max_nodes=6, emptyconcept=False))
    ops = [_op(draw) for _ in range(draw(st.integers(1, 6)))]
    return {'k': 'edit', 'tree': j, 'model': spec, 'ops': ops}


@st.composite
def _arb_cases(draw):
    spec = draw(st.sampled_from([{'name': 'default'}, {'name': 'default'}, {'name': 'amr'}]))
    if draw(st.booleans()):
        a = draw(graphs.arbitrary_triples(max_triples=9))
        triples, vs = a['triples'], a['vars']
    else:
        # built connected, then optionally damaged a little: keeps the connected share near one half
        g = draw(graphs.wf_graphs(spec, max_vars=4))
        triples = g['triples']
        vs = sorted({t[0] for t in triples})
        for _ in range(draw(st.integers(0, 2))):
            c = draw(st.integers(0, 3))
            if c == 0 and triples:
                triples = list(triples)
                del triples[draw(st.integers(0, len(triples) - 1))]
            elif c == 1 and triples:
                triples = triples + [list(pick(draw, triples))]
    tops = vs + [None, 'zz', '']            # '' is falsy but not None: a requested '' is "not a variable", never "use the default"
    epi = []
    for _ in range(draw(st.integers(0, 4))):
        if draw(st.booleans()):
            epi.append([draw(st.integers(0, 20)), ['pop']])
        else:
            epi.append([draw(st.integers(0, 20)), ['push', pick(draw, vs + ['zz'])]])
    # never a Push naming a non-variable target: vs are sources (variables); 'zz' occurs nowhere unless chosen as a top
    return {'k': 'arb', 'triples': triples, 'gtop': pick(draw, tops), 'reqtop': pick(draw, tops), 'epi': epi,
            'model': spec}


def _machine(report):
    class EditHistory(RuleBasedStateMachine):
        """State: one decoded graph under edit.  Rules append JSON operations; the finished history is judged step by step
        by check() (clause 2 after every step, clause 1 while deletes are restricted to content-preserving ones)."""

        def __init__(self):
            super().__init__()
            self.case = None
            self.G = None

        @initialize(data=st.data(), free=st.booleans())
        def start(self, data, free):
            spec = data.draw(st.sampled_from([{'name': 'default'}, {'name': 'amr'}, {'name': 'mini'}]))
            j = data.draw(trees.wf_trees(spec, max_nodes=5, emptyconcept=False))
            self.case = {'k': 'hist', 'tree': j, 'model': spec, 'ops': [], 'free': free}
            node = interp.to_node(j)
            if interp.wellformed(node, spec) is None:
                try:
                    self.G = _init_graph(self.case, build_model(spec))
                except Exception:
                    report(self.case)          # check() repeats the step and files the exception as a violation bucket

        def _do(self, op):
            if self.G is None:
                return
            self.case['ops'].append(op)
            apply_op(self.G, op, self.case['model'], restricted=not self.case['free'])

        @rule(i=st.integers(0, 30))
        def drop_markers(self, i): self._do(['drop', i])

        @rule(i=st.integers(0, 30), v=st.integers(-2, 12), pos=st.integers(0, 3))
        def add_push(self, i, v, pos): self._do(['push', i, v, pos])

        @rule(i=st.integers(0, 30), n=st.integers(1, 3))
        def add_pops(self, i, n): self._do(['pop', i, n])

        @rule(i=st.integers(0, 30), j=st.integers(0, 30))
        def swap_markers(self, i, j): self._do(['swap', i, j])

        @precondition(lambda self: self.G is not None and len(self.G['triples']) >= 2)
        @rule(i=st.integers(0, 30), j=st.integers(0, 30))
        def move_triple(self, i, j): self._do(['move', i, j])

        @rule(i=st.integers(0, 30))
        def set_top(self, i): self._do(['top', i])

        @rule(i=st.integers(0, 30), k=st.integers(0, 3))
        def rename_variable(self, i, k): self._do(['rename', i, k])

        @rule(i=st.integers(0, 30), r=st.sampled_from(ADD_ROLES), c=st.sampled_from(ADD_CONSTS))
        def append_attribute(self, i, r, c): self._do(['add-attr', i, r, c])

        @rule(i=st.integers(0, 30), r=st.sampled_from(ADD_ROLES), j=st.integers(0, 30))
        def append_edge(self, i, r, j): self._do(['add-edge', i, r, j])

        @precondition(lambda self: self.G is not None and len(self.G['triples']) >= 1)
        @rule(i=st.integers(0, 30))
        def delete_triple(self, i): self._do(['del', i])

        def teardown(self):
            if self.case is not None and self.G is not None and self.case['ops']:
                report(self.case)

    return EditHistory


def stages(tier):
    return [
        Hyp('marker-edits', _edit_cases, 5000, 300000),
        Hyp('arbitrary-lists', _arb_cases, 6000, 300000),
        Machine('edit-histories', _machine, (600, 12), (20000, 30)),
        Fuzz('coverage-guided-marker-edits', 0, 600000, structured=_edit_cases, max_len=2048),
        Fuzz('coverage-guided-arbitrary-lists', 0, 600000, structured=_arb_cases, max_len=2048),
    ]
