"""C18  Constant quoting, evaluation and typing are consistent with the notation."""
import re

from hypothesis import strategies as st

import penman
from penman import constant
from penman._lexer import PENMAN_RE, TRIPLE_RE, lex
from penman.exceptions import ConstantError

from pv.gen import strings
from pv.harness import Enum, Hyp
from pv.ref import lex as rlex

ID = 'C18'
TITLE = 'Constant quoting, evaluation and typing'
TECHNIQUE = 'bounded-exhaustive enumeration of all short strings / atom texts plus Hypothesis text; round-trip oracle evaluate(quote(x)) == x, one-STRING-token oracle under the real and the reference lexer, JSON-number-grammar reference for evaluate/type'
RULE = ('cases: (a) every Python string of length <= L over a 22-symbol alphabet (quote, backslash, LF, CR, TAB, NUL, combining acute, Angstrom sign, '
        'DEL, e-acute, U+2028, U+0085, a lone surrogate, delimiters, blank, letter) [exhaustive], random long '
        'strings incl. surrogates, ints/floats, None -> quote(); (b) every atom text of length <= L over '
        '"01 9-+.eE\\"\\\\anNIt[]" [exhaustive] and random atoms -> evaluate()/type(). Non-trivial: string has a '
        'quote, backslash, control or non-ASCII character; atom is not a plain identifier ([A-Za-z_-]+). '
        'Distinct by case content.')
ASSUMPTIONS = [
    'atom texts contain no blanks (they are SYMBOL/STRING tokens); json.loads would strip surrounding blanks',
    'atom texts stay below CPython\'s 4300-digit int limit (interpreter limit, not a penman property)',
    'reference number grammar = JSON: -?(0|[1-9][0-9]*)(.[0-9]+)?([eE][+-]?[0-9]+)?',
]

STR_ALPHA = ['"', '\\', '\n', '\t', '\x00', '\x7f', '\xe9', '\u2028', '\x85', '\ud800',
             '(', ')', '/', ':', '~', '#', ' ', 'a', 'u', '\u0301', '\u212b', '\r']       # a + U+0301 and U+212B are not in NFC
ATOM_ALPHA = list('019-+.eE"\\anNIt[]')
NUM_RE = re.compile(r'-?(0|[1-9][0-9]*)(\.[0-9]+)?([eE][+-]?[0-9]+)?')
PLAIN_RE = re.compile(r'[A-Za-z_-]+')


def _tok(t):
    return (t.type, t.text, t.lineno, t.offset)


def check_quote(x):
    f = []
    q = constant.quote(x)
    if not isinstance(q, str):
        return [('quote-type', 'quote(%r) -> %r' % (x, q))]
    want = [('STRING', q, 1, 0)]
    for name, pat in (('graph', PENMAN_RE), ('triple', TRIPLE_RE)):
        got = [_tok(t) for t in lex(q, pattern=pat)]
        if got != want:
            f.append(('quote-one-string-token', 'lex(%r, %s) -> %r' % (q, name, got)))
        if rlex.scan(q, name) != want:
            f.append(('quote-one-string-token-ref', 'R-lex(%r, %s) -> %r' % (q, name, rlex.scan(q, name))))
    if x is None:
        if q != '""':
            f.append(('quote-none', 'quote(None) -> %r' % (q,)))
    elif isinstance(x, str):
        v = constant.evaluate(q)
        if not (isinstance(v, str) and v == x):
            f.append(('evaluate-quote', 'evaluate(quote(%r)) -> %r' % (x, v)))
    else:
        if q != constant.quote(str(x)):
            f.append(('quote-number', 'quote(%r)=%r but quote(str)=%r' % (x, q, constant.quote(str(x)))))
    if constant.type(q) is not constant.STRING:
        f.append(('quote-typed-string', 'type(%r) -> %r' % (q, constant.type(q))))
    # in context: the quoted text is one atom of a graph and survives a text trip
    t = penman.parse('(a :r ' + q + ')')
    # ... also with further strings after it on the same line (where one string ends decides where the next begins)
    t3 = penman.parse('(a :r ' + q + ' :s "t" :u ' + q + ')')
    if t3.node != ('a', [(':r', q), (':s', '"t"'), (':u', q)]):
        f.append(('quote-in-graph', 'parse("(a :r %s :s "t" :u %s)") -> %r' % (q, q, t3.node)))
    c3 = penman.parse_triples('r(a, ' + q + ') ^ s(a, "t") ^ u(a, ' + q + ')')
    if c3 != [('a', ':r', q), ('a', ':s', '"t"'), ('a', ':u', q)]:
        f.append(('quote-in-conjunction', 'parse_triples with %s twice -> %r' % (q, c3)))
    if t.node != ('a', [(':r', q)]):
        f.append(('quote-in-graph', 'parse("(a :r %s)") -> %r' % (q, t.node)))
    else:
        s = penman.format(t, indent=None)
        if penman.parse(s).node != t.node:
            f.append(('quote-in-graph', 'format/parse changed %r' % (q,)))
    return f


def _ref_eval(a):
    """-> ('none',) | ('int', v) | ('float', v) | ('str',) | ('error-or-str',)"""
    if a is None or a == '':
        return ('none',)
    if NUM_RE.fullmatch(a):
        if any(c in a for c in '.eE'):
            return ('float', float(a))
        return ('int', int(a))
    return ('other',)


_ESC = {'"': '"', '\\': '\\', '/': '/', 'b': '\b', 'f': '\f', 'n': '\n', 'r': '\r', 't': '\t'}


def _ref_unquote(a):
    """Text value of a non-numeric atom: a symbol is returned unchanged; "..." that is a JSON string gets its quotes
    removed and its escapes resolved; anything else between quotes is not a JSON string and stays as written."""
    if not (len(a) >= 2 and a[0] == '"' and a[-1] == '"'):
        return a
    body = a[1:-1]
    out = []
    i = 0
    while i < len(body):
        c = body[i]
        if c == '"' or ord(c) < 0x20:
            return a
        if c != '\\':
            out.append(c)
            i += 1
            continue
        if i + 1 >= len(body):
            return a
        e = body[i + 1]
        if e in _ESC:
            out.append(_ESC[e])
            i += 2
        elif e == 'u':
            h = body[i + 2:i + 6]
            if len(h) != 4 or any(x not in '0123456789abcdefABCDEF' for x in h):
                return a
            cp = int(h, 16)
            i += 6
            if 0xD800 <= cp <= 0xDBFF and body[i:i + 2] == '\\u':
                h2 = body[i + 2:i + 6]
                if len(h2) == 4 and all(x in '0123456789abcdefABCDEF' for x in h2) and 0xDC00 <= int(h2, 16) <= 0xDFFF:
                    cp = 0x10000 + ((cp - 0xD800) << 10) + (int(h2, 16) - 0xDC00)
                    i += 6
            out.append(chr(cp))
        else:
            return a
    return ''.join(out)


def check_atom(a):
    f = []
    try:
        v = ('ok', constant.evaluate(a))
    except ConstantError:
        v = ('cerr', None)
    try:
        ty = ('ok', constant.type(a))
    except ConstantError:
        ty = ('cerr', None)
    ref = _ref_eval(a)
    if (v[0] == 'cerr') != (ty[0] == 'cerr'):
        f.append(('type-evaluate-agree-on-error', 'evaluate(%r)->%s type->%s' % (a, v[0], ty[0])))
    if v[0] == 'ok':
        val = v[1]
        if isinstance(val, bool) or not (val is None or isinstance(val, (str, int, float))):
            f.append(('evaluate-range', 'evaluate(%r) -> %r' % (a, val)))
        if isinstance(val, float) and val != val:
            f.append(('evaluate-nan', 'evaluate(%r) -> NaN' % (a,)))
        if ref[0] == 'none':
            if val is not None:
                f.append(('evaluate-none', 'evaluate(%r) -> %r' % (a, val)))
        elif val is None:
            f.append(('evaluate-none', 'evaluate(%r) -> None' % (a,)))
        if ref[0] in ('int', 'float'):
            pt = int if ref[0] == 'int' else float
            if type(val) is not pt or val != ref[1] or repr(val) != repr(ref[1]):        # repr: -0.0 is not 0.0
                f.append(('evaluate-number', 'evaluate(%r) -> %r, JSON number grammar gives %s %r' % (a, val, ref[0], ref[1])))
        elif isinstance(val, (int, float)):
            f.append(('evaluate-number', 'evaluate(%r) -> %r although not JSON number syntax' % (a, val)))
        elif ref[0] == 'other':
            want = _ref_unquote(a)
            if not (type(val) is str and val == want):
                f.append(('evaluate-text', 'evaluate(%r) -> %r, expected %r (symbols unchanged, strings unquoted and unescaped)' % (a, val, want)))
        if ty[0] == 'ok':
            T = ty[1]
            if val is None:
                ok = T is constant.NULL
            elif type(val) is int:
                ok = T is constant.INTEGER
            elif type(val) is float:
                ok = T is constant.FLOAT
            else:
                ok = T in (constant.SYMBOL, constant.STRING)
                if a is not None and len(a) >= 2 and a.startswith('"') and a.endswith('"'):
                    ok = T is constant.STRING
            if not ok:
                f.append(('type-matches-value', 'evaluate(%r) -> %r but type -> %r' % (a, val, T)))
    else:
        if ref[0] != 'other':
            f.append(('evaluate-total', 'evaluate(%r) raised ConstantError' % (a,)))
    return f


def check(case):
    k = case['k']
    if k == 'str' or k == 'num':
        return check_quote(case['x'])
    if k == 'none':
        return check_quote(None) + check_atom(None)
    if k == 'atom':
        return check_atom(case['a'])
    raise ValueError(k)


def nontrivial(case):
    k = case['k']
    if k == 'str':
        return any(c in '"\\' or ord(c) < 32 or ord(c) > 126 for c in case['x'])
    if k == 'atom':
        return not PLAIN_RE.fullmatch(case['a'])
    return True


def classes(case):
    k = case['k']
    out = [k]
    if k == 'str':
        x = case['x']
        if '"' in x: out.append('str:quote')
        if '\\' in x: out.append('str:backslash')
        if any(ord(c) < 32 for c in x): out.append('str:control')
        if any(ord(c) > 126 for c in x): out.append('str:non-ascii')
        if any(0xD800 <= ord(c) <= 0xDFFF for c in x): out.append('str:surrogate')
        if len(x) > 20: out.append('str:long')
    elif k == 'atom':
        r = _ref_eval(case['a'])[0]
        out.append('atom:' + r)
        if case['a'].startswith('"'): out.append('atom:quoted')
    return out


def _atoms():
    num = st.from_regex(r'-?(0|[1-9][0-9]{0,25})(\.[0-9]{1,25})?([eE][+-]?[0-9]{1,4})?', fullmatch=True)
    near = st.text(alphabet=ATOM_ALPHA + list('xyz_{}:,'), min_size=0, max_size=40)
    quoted = st.lists(st.sampled_from(list('ab"\\ntu0{}[]/\xe9\u2028') + ['\\u00e9', '\\u0301', '\u0301', '\\ud83d\\ude00', '\\ud800', 'e\u0301', '\u212b']), max_size=30).map(lambda s: '"' + ''.join(s) + '"')
    words = st.sampled_from(['true', 'false', 'null', 'NaN', 'Infinity', '-Infinity', 'nan', 'inf', '1_000', '0x10',
                             '01', '-', '+1', '1.', '.5', '1e', '--1', '1e400', '-0', '-0.0', '[1]', '{}', '{"a":1}',
                             '"', '""', '"\\"', 'None', '1e-400', '\u0661\u0662', '-0e0', '-0.00', '-1e-400', '-0E-5', 'e\u0301', '\u212b', 'A\u030a\u0301'])
    return st.one_of(num, near, quoted, words).filter(lambda a: not any(c in ' \t\r\n\v\f' for c in a))


def _hyp_cases():
    anystr = st.text(alphabet=st.characters(), max_size=200)   # includes surrogates
    biased = st.text(alphabet=st.sampled_from(STR_ALPHA + ['\r', '\v', '\f', '\u3000', '\xa0', '\U0001f600']), max_size=60)
    nums = st.one_of(st.integers(-10**30, 10**30), st.floats(allow_nan=False), st.sampled_from([0, -1, 0.0, -0.0, 1e22, 1.5, float('inf')]))
    longs = st.tuples(st.sampled_from(['a', '"', '\\', '\x00', '\xe9', 'ab "c" ']), st.sampled_from([700, 1500, 4400, 9000])).map(lambda t: t[0] * (t[1] // len(t[0])))
    return st.one_of(
        longs.map(lambda x: {'k': 'str', 'x': x}),
        longs.map(lambda x: {'k': 'atom', 'a': 'x' + x.replace(' ', '_').replace('\x00', '0')}),
        anystr.map(lambda x: {'k': 'str', 'x': x}),
        biased.map(lambda x: {'k': 'str', 'x': x}),
        nums.map(lambda x: {'k': 'num', 'x': x}),
        _atoms().map(lambda a: {'k': 'atom', 'a': a}),
        st.just({'k': 'none'}),
    )


def stages(tier):
    ls, la = (3, 4) if tier == 'quick' else (4, 5)
    return [
        Enum('exhaustive-strings',
             lambda tier: [dict(c, what='str') for c in strings.prefix_chunks(STR_ALPHA, ls, 1)],
             lambda ch: ({'k': 'str', 'x': s} for s in strings.strings_of(ch, STR_ALPHA, ls, 1)),
             'all strings of length <= %d over %d symbols (%d)' % (ls, len(STR_ALPHA), strings.count(STR_ALPHA, ls))),
        Enum('exhaustive-atoms',
             lambda tier: strings.prefix_chunks(ATOM_ALPHA, la, 1),
             lambda ch: ({'k': 'atom', 'a': s} for s in strings.strings_of(ch, ATOM_ALPHA, la, 1)),
             'all atom texts of length <= %d over %d symbols (%d)' % (la, len(ATOM_ALPHA), strings.count(ATOM_ALPHA, la))),
        Hyp('random', _hyp_cases, 6000, 300000),
    ]
