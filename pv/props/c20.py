"""C20  The penman command equals the library pipeline and emits a normal form."""
import json
import os

from hypothesis import strategies as st

import penman
from penman import layout, transform
from penman.tree import Tree

from pv.gen import trees
from pv.gen.base import pick
from pv.harness import Enum, Hyp, tmpdir
from pv.props.common import short
from pv.ref import cli, graphm, interp
from pv.ref.role import build_model, build_table, roles_for

ID = 'C20'
TECHNIQUE = 'differential: in-process runs of the command (1-in-50 also as a subprocess) against the documented library pipeline re-implemented as library calls, byte-for-byte on stdout and exit status; metamorphic oracles: formatting options never change decoded content, cli(cli(x)) == cli(x), identity without normalisation options; Hypothesis-generated streams x option sets'
RULE = ('cases: streams of 0..3 well-formed graphs with metadata per source, via stdin or 1..3 files, x option sets drawn from the power set of '
        '{--canonicalize-roles, --reify-edges, --dereify-edges, --reify-attributes, --indicate-branches}, --rearrange / --reconfigure with '
        'comma-combined keys, --make-variables formats, --indent {absent, no, -1, 0..8}, --compact, --triples, --check, model in {default, '
        '--amr, --noop, --model FILE}; docs/command.rst examples as fixed cases. Non-trivial: >= 2 graphs and >= 1 normalisation option, or '
        '>= 2 input files. Distinct by case content.')
ASSUMPTIONS = ['the reference pipeline (parse, canonicalise, interpret, reify, dereify, reify attributes, indicate branches, reconfigure or configure '
               'with the selected model, rearrange, relabel, format) calls the library functions themselves: this check decides the plumbing of '
               'penman/__main__.py, the functions are decided by C01-C19',
               'idempotence is asserted for option sets without --reconfigure, --indicate-branches, --triples and random keys',
               'open known finding F15 (--reify-edges with --reify-attributes on an inverted attribute whose base role is reifiable) is excluded '
               'from the idempotence clause by signature, and counted',
               'alignment integers spelled canonically; metadata values in the image of the comment scanner']

REARR = {'random': 'random_order', 'canonical': 'canonical_order', 'alphanumeric': 'alphanumeric_order', 'inverted-last': 'is_role_inverted'}
RECONF = {'original': 'original_order', 'random': 'random_order', 'canonical': 'canonical_order'}
NORM_FLAGS = [('canon', '--canonicalize-roles'), ('re', '--reify-edges'), ('de', '--dereify-edges'), ('ra', '--reify-attributes'), ('ib', '--indicate-branches')]


def _indent_value(ind):
    if ind is None:
        return -1
    if ind.lower() in ('no', 'none', 'false'):
        return None
    return int(ind)


def pipeline(texts, model, o):
    """The documented per-graph pipeline as library calls.  -> (stdout, exit status)"""
    out = []
    code = 0
    indent = _indent_value(o.get('indent'))
    for text in texts:
        first = True
        for t in penman.iterparse(text):
            if not first:
                out.append('')
            first = False
            if o.get('canon'):
                t = transform.canonicalize_roles(t, model)
            g = layout.interpret(t, model)
            if o.get('re'):
                g = transform.reify_edges(g, model)
            if o.get('de'):
                g = transform.dereify_edges(g, model)
            if o.get('ra'):
                g = transform.reify_attributes(g)
            if o.get('ib'):
                g = transform.indicate_branches(g, model)
            if o.get('check'):
                errs = model.errors(g)
                if errs:
                    code = 1
                    for i, (tr, msgs) in enumerate(errs.items(), 1):
                        ctx = '({}) '.format(' '.join(map(str, tr))) if tr else ''
                        for msg in msgs:
                            g.metadata['error-%d' % i] = ctx + msg
            if o.get('triples'):
                s = penman.format_triples(g.triples, indent=bool(indent))
            else:
                if o.get('reconf'):
                    keys = [getattr(model, RECONF[k]) for k in o['reconf']]
                    t2 = layout.reconfigure(g, model=model, key=lambda r, keys=keys: [f(r) for f in keys])
                else:
                    t2 = layout.configure(g, model=model)
                if o.get('rearr'):
                    keys = [getattr(model, REARR[k]) for k in o['rearr'] if k in REARR]
                    layout.rearrange(t2, key=lambda r, keys=keys: [f(r) for f in keys], attributes_first='attributes-first' in o['rearr'])
                if o.get('mv'):
                    t2.reset_variables(o['mv'])
                s = penman.format(t2, indent=indent, compact=bool(o.get('compact')))
            out.append(s)
    return ''.join(x + '\n' for x in out), code


def argv_of(o, model_args):
    argv = list(model_args)
    for k, fl in NORM_FLAGS + [('check', '--check'), ('triples', '--triples'), ('compact', '--compact')]:
        if o.get(k):
            argv.append(fl)
    if o.get('reconf'):
        argv += ['--reconfigure', ','.join(o['reconf'])]
    if o.get('rearr'):
        argv += ['--rearrange', ','.join(o['rearr'])]
    if o.get('mv'):
        argv += ['--make-variables', o['mv']]
    if o.get('indent') is not None:
        argv += ['--indent=' + o['indent']]
    if o.get('v'):
        argv.append(o['v'])            # verbosity never changes what is written to stdout
    return argv + ['--encoding', 'utf-8']


def _model_args(spec, d):
    name = spec.get('name')
    if name == 'amr':
        return ['--amr']
    if name == 'default':
        return []
    if name == 'noop':
        return ['--noop']
    t = build_table(spec)
    p = os.path.join(d, 'model.json')
    with open(p, 'w', encoding='utf-8') as fh:
        doc = {'roles': {r: {} for r in t['roles']}, 'normalizations': t['normalizations'], 'reifications': t['reifications']}
        if t['top_role'] != ':TOP':
            doc['top_role'] = t['top_role']
        json.dump(doc, fh)
    return ['--model', p]


def _run(argv, texts, use_stdin, d, prefix='in', dup=None):
    """dup = (k, style): texts[-1] is texts[k] again and is NOT written to a file of its own: the path of file k is given a
    second time (verbatim, or spelled through "./")"""
    stdin = ''
    argv = list(argv)
    if use_stdin:
        stdin = texts[0]
    elif dup is not None:
        paths = cli.write_inputs(d, texts[:-1], prefix)
        again = paths[dup[0]]
        if dup[1]:
            again = os.path.join(os.path.dirname(again), '.', os.path.basename(again))
        argv += paths + [again]
    else:
        argv += cli.write_inputs(d, texts, prefix)
    try:
        code, out, err = cli.run_inprocess(argv, stdin)
        return ('ok', code, out), argv, stdin
    except Exception as e:
        return ('exc', type(e).__name__, str(e)[:200]), argv, stdin


def _gsig(g):
    return (g.top, list(g.triples), dict(g.metadata))


def is_f15(o, texts, spec):
    """open finding F15: both --reify-edges and --reify-attributes, and some attribute has an inverted role whose base is reifiable"""
    if not (o.get('re') and o.get('ra')):
        return False
    R = roles_for(spec)
    reifiable = {r[0] for r in build_table(spec)['reifications']}
    norm = build_table(spec)['normalizations']
    m = build_model(spec)
    for text in texts:
        for t in penman.iterparse(text):
            if o.get('canon'):
                t = transform.canonicalize_roles(t, m)
            g = layout.interpret(t, m)
            vs = g.variables()
            for s, r, tg in g.triples:
                if r != ':instance' and tg not in vs and R.inverted(r) and (r[:-3] in reifiable or norm.get(r[:-3]) in reifiable):
                    return True
    return False


def check(case):
    spec = case['model']
    m = build_model(spec)
    wild = bool(case.get('wild'))
    if not wild and not case.get('overinv'):
        for src in case['sources']:
            for gspec in src:
                if interp.wellformed(interp.to_node(gspec['tree']), spec) is not None:
                    return []
    d = tmpdir()
    texts = []
    ngraphs = 0
    for src in case['sources']:
        parts = [penman.format(Tree(interp.to_node(gs['tree']), metadata=dict(gs.get('meta') or {})), indent=case.get('in_indent', -1)) for gs in src]
        ngraphs += len(parts)
        texts.append('\n\n'.join(parts) + '\n')
    if case.get('crlf'):
        texts = [x.replace('\n', '\r\n') for x in texts]
    o = case['opts']
    use_stdin = bool(case.get('stdin')) and len(texts) == 1
    if use_stdin is False and not texts:
        return []
    dup = None
    sources = list(case['sources'])
    if case.get('dup') is not None and not use_stdin:
        # the same FILE named twice on the command line: its graphs are processed (and written) twice
        k = case['dup'][0] % len(texts)
        dup = (k, case['dup'][1])
        texts = texts + [texts[k]]
        sources = sources + [sources[k]]
        ngraphs += len(sources[k])
    argv0 = argv_of(o, _model_args(spec, d))
    got, argv, stdin = _run(argv0, texts, use_stdin, d, dup=dup)
    lab = 'penman %s <- %s' % (' '.join(os.path.basename(a) if a.startswith(d) else a for a in argv), short(texts, 300))
    f = []
    try:
        exp_out, exp_code = pipeline(texts, m, o)
        exp = ('ok', exp_code, exp_out)
    except Exception as e:
        exp = ('exc', type(e).__name__, str(e)[:200])
    if got[0] != exp[0] or (got[0] == 'exc' and got[1] != exp[1]):
        f.append(('outcome-differs-from-pipeline', '%s: tool %s, pipeline %s' % (lab, short(got, 200), short(exp, 200))))
        return f
    if got[0] == 'exc':
        return f
    if got[2] != exp[2]:
        f.append(('stdout-differs-from-pipeline', '%s: tool wrote %s, pipeline %s' % (lab, short(got[2], 300), short(exp[2], 300))))
    if (got[1] or 0) != exp[1]:
        f.append(('exit-status-differs-from-pipeline', '%s: exit %r, pipeline %r' % (lab, got[1], exp[1])))
    if f:
        return f
    out = got[2]
    if wild and not o.get('triples'):
        # arbitrary (also ill-formed) input: only the plumbing clauses; the normal-form clause where the first pass is clean
        try:
            gs = penman.loads(out, model=m)
        except Exception:
            gs = None
        if gs is not None and len(gs) != ngraphs:
            f.append(('one-output-graph-per-input-graph', '%s: %d in, %d out' % (lab, ngraphs, len(gs))))
    elif not o.get('triples'):
        gs = penman.loads(out, model=m)
        if len(gs) != ngraphs:
            f.append(('one-output-graph-per-input-graph', '%s: %d in, %d out' % (lab, ngraphs, len(gs))))
            return f
        # formatting options never change content
        alt = dict(o)
        alt['indent'] = case['alt_indent']
        alt['compact'] = not o.get('compact')
        got2, _, _ = _run(argv_of(alt, _model_args(spec, d)), texts, use_stdin, d, dup=dup)
        if got2[0] == 'ok':
            gs2 = penman.loads(got2[2], model=m)
            if [_gsig(g) for g in gs2] != [_gsig(g) for g in gs]:
                f.append(('formatting-changes-content', '%s vs --indent %r compact=%r' % (lab, alt['indent'], alt['compact'])))
        else:
            f.append(('formatting-changes-outcome', '%s vs --indent %r: %s' % (lab, alt['indent'], short(got2, 200))))
        # normal form: feeding the output back reproduces it
        if len(texts) == 1 and not o.get('reconf') and not o.get('ib') and 'random' not in (o.get('rearr') or []):
            got3, _, _ = _run(argv0, [out], use_stdin, d, prefix='again')
            if got3[0] != 'ok' or got3[2] != out:
                sub = 'not-a-fixed-point'
                strip = lambda x: '\n'.join(l for l in x.split('\n') if not l.startswith('# ::error-'))
                if is_f15(o, texts, spec):
                    sub += ':F15-signature'      # open known finding
                elif o.get('check') and got[1] and got3[0] == 'ok' and strip(got3[2]) == strip(out):
                    sub += ':only-error-lines-differ'      # open known finding F21
                f.append((sub, '%s: first pass %s, second pass %s' % (lab, short(out, 300), short(got3[2] if got3[0] == 'ok' else got3, 300))))
        # no normalisation options: output decodes to the input graphs
        if not any(o.get(k) for k, _ in NORM_FLAGS) and not o.get('reconf') and not o.get('rearr') and not o.get('mv') and not o.get('check'):
            k = 0
            for src in sources:
                for gspec in src:
                    g0 = layout.interpret(Tree(interp.to_node(gspec['tree']), metadata=dict(gspec.get('meta') or {})), m)
                    dd = graphm.content_diff(g0.triples, g0.top, gs[k].triples, gs[k].top, spec, explicit_top_a=g0.top)
                    if dd or dict(gs[k].metadata) != dict(g0.metadata):
                        f.append(('identity-without-options', '%s: graph %d: %s' % (lab, k, dd or 'metadata %r vs %r' % (gs[k].metadata, g0.metadata))))
                    k += 1
    if case.get('subprocess'):
        sub = cli.run_subprocess(argv, stdin)
        c2, o2, e2 = sub if sub is not None else (None, None, None)
        if sub is not None and (c2, o2) != (got[1] or 0, out):
            f.append(('harness:inprocess-vs-subprocess', '%s: in-process (%r, %s) subprocess (%r, %s) %s' % (lab, got[1], short(out, 200), c2, short(o2, 200), short(e2, 200))))
    return f


def known(case, sub):
    if sub == 'not-a-fixed-point:F15-signature':
        return 'F15'
    if sub == 'not-a-fixed-point:only-error-lines-differ':
        return 'F21'
    return None


def nontrivial(case):
    n = sum(len(s) for s in case['sources'])
    o = case['opts']
    norm = any(o.get(k) for k, _ in NORM_FLAGS) or o.get('reconf') or o.get('rearr') or o.get('mv')
    return (n >= 2 and bool(norm)) or (len(case['sources']) >= 2 and not case.get('stdin'))


def classes(case):
    o = case['opts']
    out = ['model:' + case['model'].get('name', 'custom'), 'sources:%d' % len(case['sources']), 'stdin' if case.get('stdin') else 'files']
    if case.get('dup') is not None and not (case.get('stdin') and len(case['sources']) == 1) and case['sources']: out.append('same-file-named-twice')
    if case.get('wild'): out.append('wild-input')
    if case.get('overinv'): out.append('over-inverted-roles')
    out += ['opt:' + k for k in ('canon', 're', 'de', 'ra', 'ib', 'check', 'triples', 'compact', 'mv') if o.get(k)]
    if o.get('v'): out.append('opt:' + o['v'])
    if o.get('reconf'): out.append('opt:reconfigure')
    if o.get('rearr'): out.append('opt:rearrange')
    out.append('indent:%s' % o.get('indent'))
    if case.get('subprocess'): out.append('subprocess-cross-check')
    try:
        texts = ['\n\n'.join(penman.format(Tree(interp.to_node(gs['tree'])), indent=None) for gs in src) + '\n' for src in case['sources']]
        if not case.get('wild') and is_f15(o, texts, case['model']):
            out.append('excluded:F15-signature')
    except Exception:
        pass
    return out


C20_ROLES = [':ARG0', ':ARG1', ':ARG2', ':mod', ':domain', ':polarity', ':quant', ':time', ':location', ':part', ':poss', ':op1', ':op2', ':op10',
             ':foo', ':consist-of', ':', ':name', ':subset']
C20_CONCEPTS = trees.CONCEPTS + ['have-mod-91', 'own-01', 'be-located-at-91']
C20_CONSTS = ['-', '5', '1.5', '"str"', '"a b(c)"', 'sym', '+', 'imperative', '0', '"x : y"', '"a/b"', '1,000', 'mod']


@st.composite
def _opts(draw):
    o = {}
    if draw(st.integers(0, 3)) == 0:
        # plain reformatting, the most common use of the command
        return {'compact': draw(st.booleans()), 'indent': draw(st.sampled_from([None, 'no', '-1', '0', '2', '6']))}
    for k, _ in NORM_FLAGS:
        o[k] = draw(st.integers(0, 2)) == 0
    o['check'] = draw(st.integers(0, 4)) == 0
    o['triples'] = draw(st.integers(0, 6)) == 0
    o['compact'] = draw(st.booleans())
    o['reconf'] = draw(st.sampled_from([None, None, None, ['original'], ['canonical'], ['canonical', 'original'], ['original', 'canonical']]))
    o['rearr'] = draw(st.sampled_from([None, None, None, ['canonical'], ['alphanumeric'], ['attributes-first'], ['inverted-last', 'alphanumeric'],
                                       ['attributes-first', 'canonical'], ['inverted-last'], ['alphanumeric', 'inverted-last', 'attributes-first']]))
    o['mv'] = draw(st.sampled_from([None, None, None, '{prefix}{j}', 'a{i}', '{prefix}{i}', '{prefix}{i:02}', 'n{i:d}', '{prefix}{i!s}']))
    o['indent'] = draw(st.sampled_from([None, None, 'no', '-1', '0', '1', '3', '8', 'none', 'False']))
    o['v'] = draw(st.sampled_from([None, None, None, None, '-v', '-vv', '-vvv', '--verbose']))
    return o


@st.composite
def _cases(draw):
    spec = {'name': draw(st.sampled_from(['default', 'amr', 'amr', 'amr', 'noop', 'mini', 'root']))}
    if spec['name'] == 'root':
        spec = {'name': 'custom', 'roles': [':ARG0', ':ARG1', ':mod', ':domain', ':op[0-9]+'], 'normalizations': {':mod-of': ':domain', ':domain-of': ':mod'},
                'reifications': [[':mod', 'have-mod-91', ':ARG1', ':ARG2']], 'top_role': ':ROOT'}
    R = roles_for(spec)
    fwd = [r for r in C20_ROLES if R.is_canonical_inversion(r) and not R.inverted(r)]
    inv = {r: R.invert(r) for r in fwd if R.inverted(R.invert(r)) and R.is_canonical_inversion(R.invert(r))}
    nsrc = draw(st.sampled_from([1, 1, 1, 2, 3]))
    tbl = build_table(spec)
    sources = []
    for _ in range(nsrc):
        gs = []
        for _ in range(draw(st.sampled_from([0, 1, 1, 2, 3]))):
            tj = draw(trees.wf_trees(spec, max_nodes=5, role_pool=(fwd, inv), concepts=C20_CONCEPTS, consts=C20_CONSTS, emptyconcept=False))
            if tbl['reifications'] and draw(st.integers(0, 2)) == 0:
                tj = trees.reify_in_tree(draw, tj, tbl, prob=(1, 3))
            gs.append({'tree': tj,
                       'meta': draw(trees.metadata(max_keys=2)) if draw(st.booleans()) else {}})
        sources.append(gs)
    opts = draw(_opts())
    overinv = False
    if opts.get('canon') and draw(st.integers(0, 1)) == 0:
        # roles with surplus pairs of inversions: --canonicalize-roles must bring them to a normal form in one pass
        overinv = True
        nkeys = sorted(tbl['normalizations'])
        for src in sources:
            for gsp in src:
                brs = [b for b in gsp['tree'][1] if b[0] != '/']
                if nkeys and brs:
                    brs[0][0] = nkeys[draw(st.integers(0, len(nkeys) - 1))] + '-of-of'   # e.g. :mod-of-of-of
        for src in sources:
            for gsp in src:
                stack = [gsp['tree']]
                while stack:
                    nd = stack.pop()
                    for br in nd[1]:
                        if br[0] != '/' and draw(st.integers(0, 2)) == 0:
                            base, tilde, aln = br[0].partition('~')
                            br[0] = base + '-of-of' * draw(st.integers(1, 2)) + tilde + aln
                        if isinstance(br[1], list):
                            stack.append(br[1])
    wild = draw(st.integers(0, 5)) == 0
    if wild:
        overinv = False
        sources = [[{'tree': draw(trees.any_trees(max_nodes=5, unicode=False)), 'meta': {}} for _ in range(draw(st.integers(1, 2)))] for _ in range(nsrc)]
    return {'sources': sources, 'model': spec, 'opts': opts, 'stdin': nsrc == 1 and draw(st.booleans()), 'wild': wild, 'overinv': overinv,
            'crlf': draw(st.integers(0, 3)) == 0, 'in_indent': draw(st.sampled_from([-1, None, 2])), 'alt_indent': draw(st.sampled_from(['no', '0', '4', '-1'])),
            'subprocess': draw(st.integers(0, 49)) == 0,
            'dup': [draw(st.integers(0, 2)), draw(st.booleans())] if draw(st.integers(0, 5)) == 0 else None}


def _long_chunks(tier):
    return [{'n': n, 'o': o} for n in (65, 130, 300) for o in range(3)] + [{'n': 8200, 'o': 0}, {'n': 8200, 'o': 3}]


def _long_cases(ch):
    g = [{'tree': ['a', [['/', 'alpha'], [':mod', 'x'], [':ARG0', ['b', [['/', 'beta']]]], [':polarity', '-']]], 'meta': {'id': 'x'}},
         {'tree': ['c', [['/', 'chase-01'], [':ARG1', ['m', [['/', 'mouse']]]], [':ARG0', ['c2', [['/', 'cat']]]]]], 'meta': {}}]
    opts = [{}, {'rearr': ['attributes-first', 'canonical'], 'mv': '{prefix}{j}'}, {'re': True, 'ra': True, 'canon': True, 'indent': 'no'}, {'indent': 'no'}][ch['o']]
    if ch['n'] > 1000:
        g = [{'tree': ['a', [['/', 'b']]], 'meta': {}}, {'tree': ['c', []], 'meta': {}}]
    yield {'sources': [[g[i % 2] for i in range(ch['n'])]], 'model': {'name': 'amr'}, 'opts': opts, 'stdin': ch['o'] == 0,
           'in_indent': -1, 'alt_indent': 'no', 'subprocess': False}


def stages(tier):
    return [Hyp('option-sets', _cases, 2000, 80000),
            Enum('long-streams', _long_chunks, _long_cases, 'one source with 65 / 130 / 300 graphs under three option sets')]
