"""C10  Relabelling variables is a graph isomorphism."""
from hypothesis import strategies as st

from penman import layout, surface
from penman.tree import Tree

from pv.gen import models, trees
from pv.harness import Enum, Hyp
from pv.props.common import fmt, short, tree_classes, tree_stats
from pv.ref import interp
from pv.ref.role import build_model

ID = 'C10'
TECHNIQUE = 'differential against a reference relabelling (first unused fmt(prefix(concept), i) in depth-first order) and a structural-rename oracle on the tree and on its interpretation; Hypothesis-generated well-formed trees x formats'
RULE = ('cases: well-formed trees (concept-less nodes, concepts/constants spelled like variables, aligned re-entrancies, '
        'non-ASCII / non-alphabetic / string concepts) x formats built from literal text, {prefix}, {i}, {j} (each containing '
        '{i} or {j}). Non-trivial: >= 2 nodes and a re-entrancy or two nodes with the same prefix. Distinct by (tree, format).')
ASSUMPTIONS = ['formats contain {i} or {j} (otherwise the collision-avoidance loop cannot terminate for repeated prefixes: usage precondition) '
               'and cannot produce an empty name',
               'graph-level clause only when no constant is spelled like a newly generated name (stated proviso)']

FORMATS = ['{prefix}{j}', '{prefix}{i}', 'v{i}', 'x{j}', '{prefix}_{j}', '{i}', '{prefix}{prefix}{i}', 'n{j}{prefix}', '{prefix}{i}{j}', 'a{j}']


def prefix_of(concept):
    if isinstance(concept, str) and concept:
        for c in concept:
            if c.isalpha():
                return c.lower()
    return '_'


def ref_varmap(node, fmt_):
    varmap, used = {}, set()
    order = []

    def walk(nd):
        order.append(nd)
        for r, x in nd[1]:
            if not interp.is_atom(x):
                walk(x)
    walk(node)
    for var, branches in order:
        if var in varmap:
            continue
        concept = next((x for r, x in branches if r == '/'), None)
        p = prefix_of(concept)
        i = 0
        while True:
            name = fmt_.format(prefix=p, i=i, j='' if i == 0 else i + 1)
            i += 1
            if name not in used:
                break
        used.add(name)
        varmap[var] = name
    return varmap


def rename_tree(node, vm):
    var, branches = node
    out = []
    for r, x in branches:
        if not interp.is_atom(x):
            out.append((r, rename_tree(x, vm)))
        elif r != '/' and isinstance(x, str):
            a, al = interp.split_atom(x)
            if a in vm and not x.startswith('"'):
                out.append((r, vm[a] + x[len(a):]))
            else:
                out.append((r, x))
        else:
            out.append((r, x))
    return (vm[var], out)


def check(case):
    spec = case['model']
    node = interp.to_node(case['tree'])
    if interp.wellformed(node, spec) is not None:
        return []
    fmt_ = case['fmt']
    f = []
    vm = ref_varmap(node, fmt_)
    if len(set(vm.values())) != len(vm):
        return [('reference-map-not-injective', repr(vm))]
    t = Tree(interp.to_node(case['tree']))
    if case.get('parsed'):
        # the tree comes from the parser (whatever the parser hands over besides the node must follow the relabelling)
        import penman as _p
        try:
            t2 = _p.parse(_p.format(t, indent=None))
        except _p.DecodeError:
            t2 = None           # hand-built shapes (a concept branch after other branches) have no text form
        if t2 is not None and t2.node == t.node:
            t = t2
    m0 = build_model(spec)
    if case.get('touch'):
        # the same Tree object is used before it is relabelled (derived state must follow the relabelling)
        layout.interpret(t, m0)
        import penman as _p
        _p.format(t, compact=True)
        t.nodes()
        if case.get('rearr'):
            # the tree is re-ordered IN PLACE after it was inspected: names follow the order it has now
            layout.rearrange(t, key=m0.canonical_order, attributes_first=True)
            node = interp.to_node(interp.to_json(t.node))
            vm = ref_varmap(node, fmt_)
            if len(set(vm.values())) != len(vm):
                return []
    held = t.node          # whoever still holds the old node object keeps the old tree: relabelling builds a new one
    held_json = interp.to_json(held)
    t.reset_variables(fmt_)
    if interp.to_json(held) != held_json:
        return [('old-node-object-rewritten', '%s fmt=%r: the node held before the call became %s' % (fmt(node), fmt_, fmt(held)))]
    want = rename_tree(node, vm)
    if t.node != want:
        f.append(('relabelled-tree', '%s fmt=%r -> %s, expected %s' % (fmt(node), fmt_, fmt(t.node), fmt(want))))
        return f
    # graph level
    vs = set(vm)
    consts = set()

    def collect(nd):
        for r, x in nd[1]:
            if not interp.is_atom(x):
                collect(x)
            elif r != '/' and isinstance(x, str):
                a, _ = interp.split_atom(x)
                if a not in vs:
                    consts.add(a)
    collect(node)
    if consts & set(vm.values()):
        return f
    m = build_model(spec)
    g0 = layout.interpret(Tree(node), m)
    g1 = layout.interpret(t, m)
    # relabelling twice with the same format is relabelling once (names depend on concepts and order only)
    t.reset_variables(fmt_)
    if t.node != want:
        f.append(('relabel-twice', '%s fmt=%r: second pass gives %s' % (fmt(node), fmt_, fmt(t.node))))
    ren = lambda x: vm.get(x, x) if isinstance(x, str) else x
    exp = [(vm[s], r, t_ if r == ':instance' else ren(t_)) for s, r, t_ in g0.triples]
    if g1.triples != exp or g1.top != vm[g0.top]:
        f.append(('interpretation-not-renamed', '%s fmt=%r: %s, expected %s' % (fmt(node), fmt_, short(g1.triples), short(exp))))
    else:
        for fn in (surface.alignments, surface.role_alignments):
            a0 = {(vm[s], r, t_ if r == ':instance' else ren(t_)): (a.prefix, a.indices) for (s, r, t_), a in fn(g0).items()}
            a1 = {k: (a.prefix, a.indices) for k, a in fn(g1).items()}
            if a0 != a1:
                f.append(('alignments-not-kept', '%s fmt=%r: %r vs %r' % (fmt(node), fmt_, a1, a0)))
                break
    return f


def _collision(node, fmt_):
    ps = []

    def walk(nd):
        ps.append(prefix_of(next((x for r, x in nd[1] if r == '/'), None)))
        for r, x in nd[1]:
            if not interp.is_atom(x):
                walk(x)
    walk(node)
    return len(set(ps)) < len(ps)


def _late_concept(node):
    return any(r == '/' and i > 0 for i, (r, x) in enumerate(node[1])) or any(_late_concept(x) for r, x in node[1] if not interp.is_atom(x))


def nontrivial(case):
    node = interp.to_node(case['tree'])
    if interp.wellformed(node, case['model']) is not None:
        return False
    s = tree_stats(node)
    return s['nodes'] >= 2 and bool(s['reent'] or _collision(node, case['fmt']))


def classes(case):
    node = interp.to_node(case['tree'])
    why = interp.wellformed(node, case['model'])
    if why:
        return ['skipped:' + why]
    out = ['fmt:' + case['fmt']] + tree_classes(node)
    if _collision(node, case['fmt']): out.append('prefix-collision')
    s = tree_stats(node)
    if s['reent'] and s['aligned']: out.append('maybe-aligned-reentrancy')
    if _late_concept(node): out.append('concept-branch-not-first')
    if case.get('parsed'): out.append('tree-from-parser')
    if case.get('touch') and case.get('rearr'): out.append('rearranged-in-place-before')
    return out


@st.composite
def _cases(draw, large=False):
    spec = draw(st.sampled_from([{'name': 'default'}, {'name': 'amr'}, {'name': 'noop'}]))
    j = draw(trees.wf_trees(spec, max_nodes=40 if large else 8, wide=6 if large else 3))
    if draw(st.integers(0, 5)) == 0:
        # variables that look like numbers / signs, and names that are a permutation of what the format will produce
        ren = {}
        pool = ['1', '2', '-', '+1', '.5', '0', 'a2', 'a', 'b2', 'b', 'v0', 'v1', 'x2', 'x']
        def rn(nd):
            if nd[0] not in ren:
                ren[nd[0]] = pool[len(ren) % len(pool)] if len(ren) < len(pool) else nd[0]
            for br in nd[1]:
                if isinstance(br[1], list):
                    rn(br[1])
        rn(j)
        if len(set(ren.values())) == len(ren):
            def ap(nd):
                nd[0] = ren[nd[0]]
                for br in nd[1]:
                    if isinstance(br[1], list):
                        ap(br[1])
                    elif br[0] != '/' and isinstance(br[1], str):
                        a, tilde, al = br[1].partition('~')
                        if a in ren and not br[1].startswith('"'):
                            br[1] = ren[a] + tilde + al
            # constants spelled like a new name would change meaning: only rename when no constant collides
            consts = set()
            def cs(nd):
                for br in nd[1]:
                    if isinstance(br[1], list):
                        cs(br[1])
                    elif br[0] != '/' and isinstance(br[1], str):
                        consts.add(br[1].partition('~')[0])
            cs(j)
            if not (consts - set(ren)) & set(ren.values()):
                ap(j)
    fmt_ = draw(st.sampled_from(FORMATS))
    if draw(st.integers(0, 5)) == 0:
        # the tree already uses exactly the names the format produces, but on other nodes (a rotation of them)
        node = interp.to_node(j)
        if interp.wellformed(node, spec) is None:
            vm = ref_varmap(node, fmt_)
            olds = list(vm)
            news = [vm[o] for o in olds]
            k = draw(st.integers(1, max(1, len(news) - 1)))
            rot = news[k:] + news[:k]
            consts = set()

            def cs(nd):
                for r, x in nd[1]:
                    if not interp.is_atom(x):
                        cs(x)
                    elif r != '/' and isinstance(x, str):
                        consts.add(interp.split_atom(x)[0])
            cs(node)
            if len(set(news)) == len(news) and not (consts - set(olds)) & set(news):
                j = interp.to_json(rename_tree(node, dict(zip(olds, rot))))
    if draw(st.integers(0, 7)) == 0:
        # a hand-built tree: the '/' branch is not the first branch of its node (Tree, interpret and format accept that)
        k = draw(st.integers(1, 3))

        def mv(nd):
            brs = nd[1]
            for br in brs:
                if isinstance(br[1], list):
                    mv(br[1])
            ix = [i for i, br in enumerate(brs) if br[0] == '/']
            if len(ix) == 1 and len(brs) >= 2:
                c = brs.pop(ix[0])
                brs.insert(1 + (k - 1) % len(brs), c)
        mv(j)
    return {'tree': j, 'model': spec, 'fmt': fmt_, 'touch': draw(st.booleans()), 'parsed': draw(st.integers(0, 2)) == 0, 'rearr': draw(st.integers(0, 2)) == 0}


def _many_chunks(tier):
    return [{'n': n, 'shape': s} for n in (100, 300, 600) for s in ('flat', 'chain')]


def _many_cases(ch):
    n = ch['n']
    if ch['shape'] == 'flat':
        j = ['r', [['/', 'root']] + [[':op%d' % i, ['n%d' % i, [['/', 'node']]]] for i in range(n)] + [[':ARG0', 'n3'], [':ARG1-of', 'n%d' % (n - 1)]]]
    else:
        j = ['n%d' % (n - 1), [['/', 'node'], [':ARG0', 'n0']]]
        for i in range(n - 2, -1, -1):
            j = ['n%d' % i, [['/', 'node%d' % (i % 3)], [':ARG1', j]]] if i % 40 else ['n%d' % i, [['/', 'node'], [':ARG1', j], [':ARG2-of', 'n%d' % (n - 1)]]]
        if n > 250:
            return          # deeper than the supported nesting; flat shape covers the count
    for fmt_ in ('{prefix}{j}', 'v{i}', '{prefix}{i}'):
        yield {'tree': j, 'model': {'name': 'default'}, 'fmt': fmt_}


def stages(tier):
    return [Hyp('random', _cases, 6000, 200000), Hyp('random-large', lambda: _cases(large=True), 300, 15000),
            Enum('many-nodes', _many_chunks, _many_cases, 'flat and chained trees of 100 / 300 / 600 nodes whose concepts share a first letter, each format')]
