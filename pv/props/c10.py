"""C10  Relabelling variables is a graph isomorphism."""
from hypothesis import strategies as st

from penman import layout, surface
from penman.tree import Tree

from pv.gen import models, trees
from pv.harness import Hyp
from pv.props.common import fmt, short, tree_classes, tree_stats
from pv.ref import interp
from pv.ref.role import build_model

ID = 'C10'
TECHNIQUE = 'differential against a reference relabelling (first unused fmt(prefix(concept), i) in depth-first order) and a structural-rename oracle on the tree and on its interpretation; Hypothesis-generated well-formed trees x formats'
RULE = ('cases: well-formed trees (concept-less nodes, concepts/constants spelled like variables, aligned re-entrancies, '
        'non-ASCII / non-alphabetic / string concepts) x formats built from literal text, {prefix}, {i}, {j} (each containing '
        '{i} or {j}). Non-trivial: >= 2 nodes and a re-entrancy or two nodes with the same prefix. Distinct by (tree, format).')
ASSUMPTIONS = ['formats contain {i} or {j} (otherwise the collision-avoidance loop cannot terminate for repeated prefixes: usage precondition) '
               'and cannot produce an empty name',
               'graph-level clause only when no constant is spelled like a newly generated name (stated proviso)']

FORMATS = ['{prefix}{j}', '{prefix}{i}', 'v{i}', 'x{j}', '{prefix}_{j}', '{i}', '{prefix}{prefix}{i}', 'n{j}{prefix}', '{prefix}{i}{j}', 'a{j}']


def prefix_of(concept):
    if isinstance(concept, str) and concept:
        for c in concept:
            if c.isalpha():
                return c.lower()
    return '_'


def ref_varmap(node, fmt_):
    varmap, used = {}, set()
    order = []

    def walk(nd):
        order.append(nd)
        for r, x in nd[1]:
            if not interp.is_atom(x):
                walk(x)
    walk(node)
    for var, branches in order:
        if var in varmap:
            continue
        concept = next((x for r, x in branches if r == '/'), None)
        p = prefix_of(concept)
        i = 0
        while True:
            name = fmt_.format(prefix=p, i=i, j='' if i == 0 else i + 1)
            i += 1
            if name not in used:
                break
        used.add(name)
        varmap[var] = name
    return varmap


def rename_tree(node, vm):
    var, branches = node
    out = []
    for r, x in branches:
        if not interp.is_atom(x):
            out.append((r, rename_tree(x, vm)))
        elif r != '/' and isinstance(x, str):
            a, al = interp.split_atom(x)
            if a in vm and not x.startswith('"'):
                out.append((r, vm[a] + x[len(a):]))
            else:
                out.append((r, x))
        else:
            out.append((r, x))
    return (vm[var], out)


def check(case):
    spec = case['model']
    node = interp.to_node(case['tree'])
    if interp.wellformed(node, spec) is not None:
        return []
    fmt_ = case['fmt']
    f = []
    vm = ref_varmap(node, fmt_)
    if len(set(vm.values())) != len(vm):
        return [('reference-map-not-injective', repr(vm))]
    t = Tree(interp.to_node(case['tree']))
    t.reset_variables(fmt_)
    want = rename_tree(node, vm)
    if t.node != want:
        f.append(('relabelled-tree', '%s fmt=%r -> %s, expected %s' % (fmt(node), fmt_, fmt(t.node), fmt(want))))
        return f
    # graph level
    vs = set(vm)
    consts = set()

    def collect(nd):
        for r, x in nd[1]:
            if not interp.is_atom(x):
                collect(x)
            elif r != '/' and isinstance(x, str):
                a, _ = interp.split_atom(x)
                if a not in vs:
                    consts.add(a)
    collect(node)
    if consts & set(vm.values()):
        return f
    m = build_model(spec)
    g0 = layout.interpret(Tree(node), m)
    g1 = layout.interpret(t, m)
    ren = lambda x: vm.get(x, x) if isinstance(x, str) else x
    exp = [(vm[s], r, t_ if r == ':instance' else ren(t_)) for s, r, t_ in g0.triples]
    if g1.triples != exp or g1.top != vm[g0.top]:
        f.append(('interpretation-not-renamed', '%s fmt=%r: %s, expected %s' % (fmt(node), fmt_, short(g1.triples), short(exp))))
    else:
        for fn in (surface.alignments, surface.role_alignments):
            a0 = {(vm[s], r, t_ if r == ':instance' else ren(t_)): (a.prefix, a.indices) for (s, r, t_), a in fn(g0).items()}
            a1 = {k: (a.prefix, a.indices) for k, a in fn(g1).items()}
            if a0 != a1:
                f.append(('alignments-not-kept', '%s fmt=%r: %r vs %r' % (fmt(node), fmt_, a1, a0)))
                break
    return f


def _collision(node, fmt_):
    ps = []

    def walk(nd):
        ps.append(prefix_of(next((x for r, x in nd[1] if r == '/'), None)))
        for r, x in nd[1]:
            if not interp.is_atom(x):
                walk(x)
    walk(node)
    return len(set(ps)) < len(ps)


def nontrivial(case):
    node = interp.to_node(case['tree'])
    if interp.wellformed(node, case['model']) is not None:
        return False
    s = tree_stats(node)
    return s['nodes'] >= 2 and bool(s['reent'] or _collision(node, case['fmt']))


def classes(case):
    node = interp.to_node(case['tree'])
    why = interp.wellformed(node, case['model'])
    if why:
        return ['skipped:' + why]
    out = ['fmt:' + case['fmt']] + tree_classes(node)
    if _collision(node, case['fmt']): out.append('prefix-collision')
    s = tree_stats(node)
    if s['reent'] and s['aligned']: out.append('maybe-aligned-reentrancy')
    return out


@st.composite
def _cases(draw, large=False):
    spec = draw(st.sampled_from([{'name': 'default'}, {'name': 'amr'}, {'name': 'noop'}]))
    j = draw(trees.wf_trees(spec, max_nodes=40 if large else 8, wide=6 if large else 3))
    return {'tree': j, 'model': spec, 'fmt': draw(st.sampled_from(FORMATS))}


def stages(tier):
    return [Hyp('random', _cases, 6000, 200000), Hyp('random-large', lambda: _cases(large=True), 300, 15000)]
