"""C02  Decode then encode reproduces the layout that was written."""
from hypothesis import strategies as st

import penman
from penman import layout
from penman.tree import Tree

from pv.gen import models, trees
from pv.gen.base import pick
from pv.harness import Enum, Hyp
from pv.props.common import OPTS, model_arg, churn_models, fmt, noise_calls, short, strip_empty_concepts, tree_classes, tree_stats
from pv.ref import interp
from pv.ref.role import build_model

ID = 'C02'
TECHNIQUE = 'round-trip oracle (configure o interpret = identity up to "(a /)"->"(a)") over Hypothesis-generated well-formed trees x models, plus bounded-exhaustive enumeration of all small trees'
RULE = ('cases: well-formed trees built by construction (spanning tree, then re-entrancies/attributes chosen among unused '
        '(source, role, target) combinations; alignments, concept-less nodes, cycles, inverted edges and attributes, '
        'concepts spelled like variables) x models {default, amr, noop, mini, random tables} x 2 sampled (indent, compact) '
        'pairs; plus EVERY tree with <= B non-concept branches over variables {a,b,c}, roles {:r,:r-of,:s}, atom k, '
        'concept in {absent, x, "/" empty} that satisfies the stated precondition (checked with the reference '
        'interpreter). Non-trivial: the tree has a re-entrancy, an inverted edge, a concept-less node with >=1 branch, '
        'an alignment, or depth >= 3. Distinct by (tree, model).')
ASSUMPTIONS = [
    'well-formedness is decided by the reference interpreter pv/ref/interp.py (one node per variable, distinct triples, '
    'edge roles are double-inversion fixed points of the model, no inverted self-loop, no empty node)',
    'alignment integers are spelled canonically (the graph stores ints: ~01 legitimately re-serialises as ~1)',
    'text-level clause uses penman.format/parse (decided by C01) to move between text and tree',
]


def check(case):
    spec = case['model']
    node = interp.to_node(case['tree'])
    if interp.wellformed(node, spec) is not None:
        return []
    meta = case.get('meta') or {}
    fresh = bool(len(case['tree'][1]) % 2)
    if fresh:
        churn_models(node)
    m = build_model(spec, fresh=fresh)
    noise_calls(m, node)
    f = []
    t = Tree(node, metadata=dict(meta))
    M = model_arg(m, spec, len(case['tree'][1]) // 2)
    g = layout.interpret(t, M)
    if len(case['tree'][1]) % 3 == 0:
        # the read-only diagnostics are asked first; and the graph's metadata is the graph's own, not the tree's
        layout.node_contexts(g)
        for tr_ in g.triples:
            layout.appears_inverted(g, tr_)
            layout.get_pushed_variable(g, tr_)
        g.metadata['__scribble'] = 'x'
        if dict(t.metadata) != meta:
            f.append(('graph-metadata-shared-with-tree', '%s: tree metadata became %r' % (fmt(node), dict(t.metadata))))
        del g.metadata['__scribble']
    t2 = layout.configure(g, model=M)
    want = strip_empty_concepts(node)
    if t2.node != want:
        f.append(('configure-interpret-identity', '%s -> %s' % (fmt(node), fmt(t2.node))))
    if dict(t2.metadata) != meta:
        f.append(('metadata-kept', '%r -> %r' % (meta, t2.metadata)))
    for indent, compact in case.get('opts') or [[None, False]]:
        s = penman.format(t, indent=indent, compact=compact)
        s2 = penman.encode(penman.decode(s, model=M), model=M, indent=indent, compact=compact)
        exp = penman.format(Tree(want, metadata=dict(meta)), indent=indent, compact=compact)
        if s2 != exp:
            f.append(('encode-decode-normal-form', 'indent=%r compact=%r: %s -> %s' % (indent, compact, short(s), short(s2))))
            break
    return f


def nontrivial(case):
    node = interp.to_node(case['tree'])
    if interp.wellformed(node, case['model']) is not None:
        return False
    s = tree_stats(node)
    return bool(s['reent'] or s['inverted'] or s['noconcept_with_edges'] or s['aligned'] or s['depth'] >= 3)


def classes(case):
    node = interp.to_node(case['tree'])
    why = interp.wellformed(node, case['model'])
    if why is not None:
        return ['skipped:' + why]
    return ['model:' + case['model'].get('name', 'custom')] + tree_classes(node)


@st.composite
def _cases(draw, deep=False, large=False):
    spec = draw(models.model_specs(open_patterns=True, hand_noop=True))
    j = draw(trees.wf_trees(spec, max_nodes=40 if large else (14 if deep else 8), deep=deep, wide=14 if large else 3))
    opts = [pick(draw, OPTS), pick(draw, OPTS)]
    meta = draw(trees.metadata()) if draw(st.integers(0, 3)) == 0 else {}
    return {'tree': j, 'model': spec, 'opts': opts, 'meta': meta}


SMALL_MODELS = [{'name': 'default'}, {'name': 'noop'}, {'name': 'noop', 'by_override': True}]
NCHUNK = 32


def _small_chunks(tier):
    return [{'i': i, 'n': NCHUNK, 'B': 3 if tier == 'quick' else 4} for i in range(NCHUNK)]


def _small_cases(ch):
    B = ch['B']
    concepts = (None, 'x', '/') if B <= 3 else (None, 'x')
    for idx, (j, n) in enumerate(trees.small_trees(B, concepts=concepts)):
        if idx % ch['n'] != ch['i']:
            continue
        for spec in SMALL_MODELS:
            yield {'tree': j, 'model': spec}


def _deep_chunks(tier):
    return [{'d': d, 'v': v} for d in (60, 101, 130, 199) for v in range(4)] + [{'huge': n, 'shape': sh} for n in (90, 300) for sh in ('star', 'comb', 'binary')]


def _deep_cases(ch):
    if 'huge' in ch:
        if ch['shape'] == 'comb' and ch['huge'] > 300:
            return
        j = trees.huge_tree(ch['huge'], ch['shape'])
    else:
        j = trees.deep_chain(ch['d'], ch['v'])
    yield {'tree': j, 'model': {'name': 'default'}, 'opts': [[-1, False], [None, True]]}


def stages(tier):
    return [
        Enum('deep-and-huge', _deep_chunks, _deep_cases, 'chains nested 60 / 101 / 130 / 199 levels with re-entrancies to ancestors after the nested branch (4 variants); stars, combs and binary trees of about 90 and 300 nodes'),
        Enum('small-trees', _small_chunks, _small_cases,
             'every tree with <= 3 (quick) / 4 (thorough) non-concept branches over vars {a,b,c}, roles {:r,:r-of,:s}, atom k; '
             'concept in {absent,x,"/"} (<=3) or {absent,x} (4); x {default, noop}; ill-formed ones are skipped and counted'),
        Hyp('random', _cases, 4000, 150000),
        Hyp('random-deep', lambda: _cases(deep=True), 600, 20000),
        Hyp('random-large', lambda: _cases(large=True), 300, 15000),
    ]
