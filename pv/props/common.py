"""Helpers shared by the property modules."""
import contextlib
import penman
from penman.tree import Tree

from pv.ref import interp
from pv.ref.interp import is_atom, to_node

INDENTS = [None, -1, 0, 1, 2, 3, 7, 12]
OPTS = [[i, c] for i in INDENTS for c in (False, True)]


def strip_empty_concepts(node):
    """N(t): the only normalisation C02 allows -- "(a /)" is written "(a)"."""
    var, branches = node
    return (var, [(r, x if is_atom(x) else strip_empty_concepts(x)) for r, x in branches if not (r == '/' and x is None)])


def tree_stats(node):
    """dict(nodes, depth, branches, reent, inverted, noconcept_with_edges, aligned, strings, missing)"""
    vs = set(interp.node_vars(node))
    st = dict(nodes=0, depth=0, branches=0, reent=0, inverted=0, noconcept_with_edges=0, aligned=0, strings=0,
              missing=0, empty=0, maxwidth=0)

    def walk(nd, d):
        var, branches = nd
        if var is None:
            st['empty'] += 1
            return
        st['nodes'] += 1
        st['depth'] = max(st['depth'], d)
        st['maxwidth'] = max(st['maxwidth'], len(branches))
        has_c = any(r == '/' and x is not None for r, x in branches)
        nonc = 0
        for r, x in branches:
            if r == '/':
                if x is None:
                    st['missing'] += 1
                elif '~' in x and not (x.startswith('"') and x.endswith('"')):
                    st['aligned'] += 1
                if isinstance(x, str) and x.startswith('"'):
                    st['strings'] += 1
                continue
            nonc += 1
            st['branches'] += 1
            rr = r.split('~')[0]
            if '~' in r:
                st['aligned'] += 1
            if is_atom(x):
                if x is None:
                    st['missing'] += 1
                    continue
                a, al = interp.split_atom(x)
                if al is not None:
                    st['aligned'] += 1
                if a.startswith('"'):
                    st['strings'] += 1
                if a in vs:
                    st['reent'] += 1
                    if rr.endswith('-of'):
                        st['inverted'] += 1
            else:
                if rr.endswith('-of'):
                    st['inverted'] += 1
                walk(x, d + 1)
        if not has_c and nonc:
            st['noconcept_with_edges'] += 1

    walk(node, 1)
    return st


def tree_classes(node, prefix=''):
    s = tree_stats(node)
    out = []
    for k in ('reent', 'inverted', 'noconcept_with_edges', 'aligned', 'strings', 'missing', 'empty'):
        if s[k]:
            out.append(prefix + k)
    if s['depth'] >= 3:
        out.append(prefix + 'depth>=3')
    if s['depth'] >= 6:
        out.append(prefix + 'depth>=6')
    if s['nodes'] >= 5:
        out.append(prefix + 'nodes>=5')
    if s['nodes'] == 1:
        out.append(prefix + 'single-node')
    return out


_NOISE_MODELS = []


def noise_calls(m, node=None, graph=None, roles=None):
    """Documented-pure calls made before the call under test, on the model in use AND on the shipped models: a result must
    not depend on what was asked before (memo tables, shared caches).  The reference models are stateless, so any such
    dependence shows up as a disagreement in the check that follows."""
    if not _NOISE_MODELS:
        from penman.model import Model
        from penman.models.amr import model as amr
        _NOISE_MODELS.extend([Model(), amr])
    rs = set(roles or ())
    if node is not None:
        stack = [node]
        while stack:
            nd = stack.pop()
            for r, x in nd[1]:
                if r != '/':
                    rs.add(r.split('~')[0])
                if not is_atom(x):
                    stack.append(x)
    rs |= {r + '-of' for r in list(rs)} | {r[:-3] for r in rs if r.endswith('-of')}
    for mm in [m] + _NOISE_MODELS:
        for r in sorted(rs):
            mm.has_role(r); mm.is_role_inverted(r); mm.invert_role(r); mm.canonicalize_role(r)
            mm.canonical_order(r); mm.alphanumeric_order(r); mm.is_role_reifiable(r)
    if graph is not None:
        for mm in [m] + _NOISE_MODELS:
            mm.errors(graph)
        graph.variables(); graph.edges(); graph.attributes(); graph.reentrancies(); graph.instances()


def churn_models(node):
    """Create and drop short-lived models whose tables define every role of the tree (also the -of spellings) as primary,
    and ask them about those roles: whatever they leave behind (caches keyed by object identity, class-level state) must
    not leak into the model built next."""
    from penman.model import Model
    rs = set()
    stack = [node]
    while stack:
        nd = stack.pop()
        for r, x in nd[1]:
            if r != '/':
                rs.add(r.split('~')[0])
            if not is_atom(x):
                stack.append(x)
    import re as _re
    for variant in (rs, {r + '-of' for r in rs}, set()):
        tmp = Model(roles={_re.escape(r): {} for r in variant if r}, normalizations={r: ':zz' for r in list(variant)[:2]})
        for r in sorted(rs | {r + '-of' for r in rs}):
            tmp.has_role(r); tmp.is_role_inverted(r); tmp.invert_role(r); tmp.canonicalize_role(r); tmp.canonical_order(r)
        del tmp


@contextlib.contextmanager
def debug_logging():
    """What "penman -vvv" (or logging.basicConfig(level=DEBUG) in an application) sets up: the ambient level of the
    "penman" logger is DEBUG.  Records are formatted (as a stream handler would) and dropped.  Results must not depend
    on it.  The harness switches logging off globally; this switches it on for the duration of the block only."""
    import logging

    class _Sink(logging.Handler):
        def emit(self, record):
            try:
                record.getMessage()
            except Exception:       # a stream handler prints formatting errors to stderr and carries on
                pass

    lg = logging.getLogger('penman')
    old = (lg.level, lg.propagate, logging.root.manager.disable)
    h = _Sink()
    lg.addHandler(h)
    lg.setLevel(logging.DEBUG)
    lg.propagate = False
    logging.disable(logging.NOTSET)
    try:
        yield
    finally:
        lg.removeHandler(h)
        lg.setLevel(old[0])
        lg.propagate = old[1]
        logging.disable(old[2])


def model_arg(m, spec, salt):
    """What is passed as the model argument: the Model object, or - for the default model, every other time - None, i.e. the
    documented default of every public function (a call that names no model means Model())."""
    if spec.get('name') == 'default' and len(spec) == 1 and salt % 2:
        return None
    return m


def fmt(node, indent=None, compact=False, meta=None):
    return penman.format(Tree(node, metadata=meta or {}), indent=indent, compact=compact)


def short(x, n=300):
    s = repr(x)
    return s if len(s) <= n else s[:n] + '...'
