"""Helpers shared by the property modules."""
import penman
from penman.tree import Tree

from pv.ref import interp
from pv.ref.interp import is_atom, to_node

INDENTS = [None, -1, 0, 1, 2, 3, 7]
OPTS = [[i, c] for i in INDENTS for c in (False, True)]


def strip_empty_concepts(node):
    """N(t): the only normalisation C02 allows -- "(a /)" is written "(a)"."""
    var, branches = node
    return (var, [(r, x if is_atom(x) else strip_empty_concepts(x)) for r, x in branches if not (r == '/' and x is None)])


def tree_stats(node):
    """dict(nodes, depth, branches, reent, inverted, noconcept_with_edges, aligned, strings, missing)"""
    vs = set(interp.node_vars(node))
    st = dict(nodes=0, depth=0, branches=0, reent=0, inverted=0, noconcept_with_edges=0, aligned=0, strings=0,
              missing=0, empty=0, maxwidth=0)

    def walk(nd, d):
        var, branches = nd
        if var is None:
            st['empty'] += 1
            return
        st['nodes'] += 1
        st['depth'] = max(st['depth'], d)
        st['maxwidth'] = max(st['maxwidth'], len(branches))
        has_c = any(r == '/' and x is not None for r, x in branches)
        nonc = 0
        for r, x in branches:
            if r == '/':
                if x is None:
                    st['missing'] += 1
                elif '~' in x and not (x.startswith('"') and x.endswith('"')):
                    st['aligned'] += 1
                if isinstance(x, str) and x.startswith('"'):
                    st['strings'] += 1
                continue
            nonc += 1
            st['branches'] += 1
            rr = r.split('~')[0]
            if '~' in r:
                st['aligned'] += 1
            if is_atom(x):
                if x is None:
                    st['missing'] += 1
                    continue
                a, al = interp.split_atom(x)
                if al is not None:
                    st['aligned'] += 1
                if a.startswith('"'):
                    st['strings'] += 1
                if a in vs:
                    st['reent'] += 1
                    if rr.endswith('-of'):
                        st['inverted'] += 1
            else:
                if rr.endswith('-of'):
                    st['inverted'] += 1
                walk(x, d + 1)
        if not has_c and nonc:
            st['noconcept_with_edges'] += 1

    walk(node, 1)
    return st


def tree_classes(node, prefix=''):
    s = tree_stats(node)
    out = []
    for k in ('reent', 'inverted', 'noconcept_with_edges', 'aligned', 'strings', 'missing', 'empty'):
        if s[k]:
            out.append(prefix + k)
    if s['depth'] >= 3:
        out.append(prefix + 'depth>=3')
    if s['depth'] >= 6:
        out.append(prefix + 'depth>=6')
    if s['nodes'] >= 5:
        out.append(prefix + 'nodes>=5')
    if s['nodes'] == 1:
        out.append(prefix + 'single-node')
    return out


def fmt(node, indent=None, compact=False, meta=None):
    return penman.format(Tree(node, metadata=meta or {}), indent=indent, compact=compact)


def short(x, n=300):
    s = repr(x)
    return s if len(s) <= n else s[:n] + '...'
