"""C13  Role inversion and canonicalisation obey their algebra under every model."""
import copy

from hypothesis import strategies as st

from penman import transform
from penman.tree import Tree

from pv.gen import models, trees
from pv.harness import Enum, Hyp
from pv.props.common import fmt, short
from pv.ref import interp
from pv.ref.role import build_model, build_table, roles_for

ID = 'C13'
TECHNIQUE = 'algebraic-law oracle (idempotence, involution, flip, parity) plus differential against a reference role algebra; exhaustive over base + k x "-of" for every role of every shipped model, Hypothesis for random roles, random tables and trees'
RULE = ('cases: (model, role) with role = base + k x "-of", k in 0..4, base in: every literal role of the model, instances of every '
        'pattern role, the "-of"-stripped stems of roles that end in -of by definition, normalisation keys/values, "", ":", "/", '
        'colon-less spellings, junk; models {default, amr, noop, mini} exhaustively, random tables and random role strings via '
        'Hypothesis; trees x models for canonicalize_roles. Non-trivial: role has >= 1 "-of" or is model-defined. Distinct by '
        '(model, role) / (model, tree).')
ASSUMPTIONS = ['random tables are inversion-unambiguous (never both r and r-of defined, at most one trailing -of in a defined role) and their '
               'normalisation values are not keys and are double-inversion fixed points; otherwise the laws are false by construction of '
               'the table, not through a defect',
               'role strings contain no blanks (a role is a token)',
               'canonical form = the double-inversion fixed point with the same -of parity (reproduces the unit-tested ":consist" -> '
               '":consist-of-of" under AMR)']


def check_role(spec, r):
    m = build_model(spec)
    R = roles_for(spec)
    f = []
    lab = '%s %r' % (spec.get('name'), r)
    c = m.canonicalize_role(r)
    chain = c in R.norm or (R.canonical(r) is not None and R.canonical(r) in R.norm)
    if not chain and m.canonicalize_role(c) != c:
        f.append(('canonicalize-idempotent', '%s -> %r -> %r' % (lab, c, m.canonicalize_role(c))))
    if r != '/' and not c.startswith(':'):
        f.append(('canonical-leading-colon', '%s -> %r' % (lab, c)))
    want = R.canonical(r)
    if want is not None and c != want:
        f.append(('canonical-form', '%s -> %r, reference %r' % (lab, c, want)))
    if m.is_role_inverted(r) != R.inverted(r):
        f.append(('is-role-inverted', '%s -> %r, reference %r' % (lab, m.is_role_inverted(r), R.inverted(r))))
    if R.defined(r) and m.is_role_inverted(r):
        f.append(('defined-never-inverted', lab))
    if m.has_role(r) != R.has_role(r):
        f.append(('has-role', '%s -> %r, reference %r' % (lab, m.has_role(r), R.has_role(r))))
    if m.invert_role(r) != R.invert(r):
        f.append(('invert-role', '%s -> %r, reference %r' % (lab, m.invert_role(r), R.invert(r))))
    # laws on canonical roles
    for x in {c, want or c}:
        if x == '/' or not R.is_canonical_inversion(x):
            continue
        y = m.invert_role(x)
        if m.invert_role(y) != x:
            f.append(('invert-involution', '%s: canonical %r -> %r -> %r' % (lab, x, y, m.invert_role(y))))
        if m.is_role_inverted(y) == m.is_role_inverted(x):
            f.append(('invert-flips-invertedness', '%s: canonical %r (%r) -> %r (%r)' % (lab, x, m.is_role_inverted(x), y, m.is_role_inverted(y))))
    tr = ('s', r, 't')
    if m.invert(tr) != ('t', m.invert_role(r), 's'):
        f.append(('invert-triple', '%s -> %r' % (lab, m.invert(tr))))
    # targets are Constants: str, int, float or None; swapping does not convert them
    for tgt in (7, None, 1e21, '"x y"', -0.0):
        for fn, exp in ((m.invert, (tgt, m.invert_role(r), 's')),
                        (m.deinvert, (tgt, m.invert_role(r), 's') if (m.is_role_inverted(r) and not R.noop) else ('s', r, tgt))):
            got = fn(('s', r, tgt))
            if got != exp or [type(x) for x in got] != [type(x) for x in exp] or repr(got) != repr(exp):
                f.append(('invert-triple-constant-target', '%s: %s(%r) -> %r, expected %r' % (lab, fn.__name__, ('s', r, tgt), got, exp)))
                break
    d = m.deinvert(tr)
    if R.noop:
        exp = tr
    else:
        exp = m.invert(tr) if m.is_role_inverted(r) else tr
    if d != exp:
        f.append(('deinvert', '%s -> %r, expected %r' % (lab, d, exp)))
    if m.canonicalize(tr) != ('s', c, 't'):
        f.append(('canonicalize-triple', '%s -> %r' % (lab, m.canonicalize(tr))))
    return f


def check_tree(spec, j):
    m = build_model(spec)
    R = roles_for(spec)
    node = interp.to_node(j)
    before = copy.deepcopy(node)
    t = Tree(node, metadata={'k': 'v'})
    t2 = transform.canonicalize_roles(t, m)
    f = []
    if t.node != before:
        f.append(('canonicalize-roles-mutates-input', fmt(before)))

    def cmp(a, b, path):
        if a[0] != b[0] or len(a[1]) != len(b[1]):
            f.append(('tree-shape', '%s: %s -> %s' % (path, fmt(before), fmt(t2.node)))); return
        for (r1, x1), (r2, x2) in zip(a[1], b[1]):
            base, tilde, aln = r1.partition('~')
            want = R.canonical(base)
            if want is not None and r2 != want + tilde + aln:
                f.append(('tree-role', '%s: role %r -> %r, expected %r' % (fmt(before), r1, r2, want + tilde + aln))); return
            if r2.partition('~')[1:] != (tilde, aln):
                f.append(('tree-role-alignment', '%s: role %r -> %r' % (fmt(before), r1, r2))); return
            if interp.is_atom(x1) != interp.is_atom(x2):
                f.append(('tree-shape', fmt(before))); return
            if interp.is_atom(x1):
                if x1 != x2:
                    f.append(('tree-target', '%s: target %r -> %r' % (fmt(before), x1, x2))); return
            else:
                cmp(x1, x2, path + '/' + str(x1[0]))
                if f:
                    return
    cmp(before, t2.node, str(before[0]))
    if dict(t2.metadata) != {'k': 'v'}:
        f.append(('tree-metadata', repr(t2.metadata)))
    t3 = transform.canonicalize_roles(t2, m)
    has_chain = any(v in R.norm for v in R.norm.values())
    if t3.node != t2.node and not has_chain:
        f.append(('canonicalize-roles-idempotent', '%s -> %s -> %s' % (fmt(before), fmt(t2.node), fmt(t3.node))))
    return f


_HOOK_MODEL = []


def check_hooks(r):
    """The triple-level laws are stated in terms of the model's own role queries, so they hold for a model that is a
    subclass overriding those documented queries (here: inversion spelled with the suffix "-inv", ":part-of" an ordinary
    role): inverting a triple swaps source and target and uses invert_role(); deinverting an inverted triple equals
    inverting it; a non-inverted triple is returned unchanged."""
    if not _HOOK_MODEL:
        from penman.model import Model

        class SuffixModel(Model):
            def is_role_inverted(self, role):
                return role.endswith('-inv')

            def invert_role(self, role):
                return role[:-4] if role.endswith('-inv') else role + '-inv'
        _HOOK_MODEL.append(SuffixModel(roles={':ARG[0-9]': {}, ':mod': {}, ':part-of': {}}))
    m = _HOOK_MODEL[0]
    f = []
    for tgt in ('t', 7, None):
        tr = ('s', r, tgt)
        inv = m.invert(tr)
        if inv != (tgt, m.invert_role(r), 's'):
            f.append(('subclass-hooks:invert', 'invert(%r) -> %r with invert_role -> %r' % (tr, inv, m.invert_role(r))))
        exp = inv if m.is_role_inverted(r) else tr
        got = m.deinvert(tr)
        if got != exp:
            f.append(('subclass-hooks:deinvert', 'deinvert(%r) -> %r, expected %r (is_role_inverted -> %r)' % (tr, got, exp, m.is_role_inverted(r))))
        if f:
            break
    return f


def check(case):
    if case['k'] == 'hooks':
        return check_hooks(case['r'])
    if case['k'] == 'role':
        if case.get('first'):
            # another role of the same chain is canonicalised first, on the same model object: answers must not depend on the order
            build_model(case['model']).canonicalize_role(case['first'])
            build_model(case['model']).is_role_inverted(case['first'])
        return check_role(case['model'], case['r'])
    return check_tree(case['model'], case['tree'])


def nontrivial(case):
    if case['k'] == 'role':
        r = case['r']
        return r.endswith('-of') or roles_for(case['model']).defined(r if r.startswith(':') else ':' + r)
    return True


def classes(case):
    if case['k'] == 'hooks':
        return ['subclass-hooks']
    out = [case['k'], 'model:' + case['model'].get('name', 'custom')]
    if case['k'] == 'role':
        r = case['r']
        R = roles_for(case['model'])
        n = 0
        b = r
        while b.endswith('-of'):
            b = b[:-3]; n += 1
        out.append('of-count:%d' % n)
        if R.defined(r): out.append('defined')
        if R.defined(r) and r.endswith('-of'): out.append('defined-and-ends-in-of')
        if not r.startswith(':'): out.append('colonless')
        if R.canonical(r) is None: out.append('ambiguous-table-skipped')
        if (r if r.startswith(':') else ':' + r) in R.norm or R.canonical(r) in R.norm.values(): out.append('normalised')
    return out


INSTANCES = {'[0-9]+': ['1', '10', '007'], '[0-9]': ['0', '9']}


def bases_for(spec):
    t = build_table(spec)
    out = [t['top_role'], t['concept_role'], t['top_role'][1:], t['concept_role'][1:], '', ':', '/', ':foo', 'foo', ':x-y', ':of', ':-', ':ARG0', 'ARG1', ':TOP', ':instance', ':a.b', ':op', ':opx', ':ARG', ':ARG10',
           ':op1x', ':r', 'mod', 'domain-of', ':\u00e9', ':-of-', ':o-of-x']
    for p in t['roles']:
        if '[' in p:
            for pat, insts in INSTANCES.items():
                if p.endswith(pat):
                    out += [p[:-len(pat)] + i for i in insts]
        else:
            out.append(p)
            out.append(p[1:])
            b = p
            while b.endswith('-of'):
                b = b[:-3]
                out.append(b)
    out += list(spec.get('pool') or [])
    for k, v in t['normalizations'].items():
        out += [k, v]
        b = k
        while b.endswith('-of'):
            b = b[:-3]
            out.append(b)
    seen, res = set(), []
    for b in out:
        if b not in seen:
            seen.add(b); res.append(b)
    return res


FIXED_CUSTOM = [
    {'name': 'custom', 'roles': [':a', ':b', ':made-of', ':op[0-9]+'], 'normalizations': {':a-of': ':b', ':b-of': ':a'}, 'reifications': []},
    {'name': 'custom', 'roles': [':x[0-9]y[0-9]+', ':out-of'], 'normalizations': {':alias': ':out-of'}, 'reifications': [], 'noop': True},
    # normalisation keys that coincide with the model's own top / concept role
    {'name': 'custom', 'roles': [':ARG0', ':isa', ':root'], 'normalizations': {':TOP': ':root', ':instance': ':isa'}, 'reifications': []},
    {'name': 'custom', 'roles': [':ARG0', ':isa'], 'normalizations': {':head-of': ':ARG0', ':kind-of': ':isa'}, 'reifications': [],
     'top_role': ':head-of', 'concept_role': ':kind-of'},
    {'name': 'custom', 'roles': [':ARG0'], 'normalizations': {}, 'reifications': [], 'concept_role': ':instance-of', 'top_role': ':top'},
    # one key that is an alternation without parentheses
    {'name': 'custom', 'roles': [':op[0-9]+|:snt[0-9]+', ':ARG[0-9]|:mod|:part-of'], 'normalizations': {}, 'reifications': [],
     'pool': [':op1', ':op12', ':snt1', ':snt3', ':ARG1', ':mod', ':part-of', ':part']},
]


def _enum_chunks(tier):
    return [{'m': i} for i in range(len(models.NAMED) + len(FIXED_CUSTOM))] + [{'hooks': True}]


def _enum_cases(ch):
    if ch.get('hooks'):
        for b in [':ARG0', ':mod', ':part-of', ':foo', ':part', 'ARG1', ':', '', ':x-inv', ':-inv']:
            for suf in ('', '-inv', '-of', '-inv-inv', '-of-inv', '-inv-of'):
                yield {'k': 'hooks', 'r': b + suf}
        return
    spec = (models.NAMED + FIXED_CUSTOM)[ch['m']]
    for b in bases_for(spec):
        for k in (0, 1, 2, 3, 4, 9, 10, 11, 16):
            yield {'k': 'role', 'model': spec, 'r': b + '-of' * k}


@st.composite
def _random(draw):
    spec = draw(models.model_specs(chains=True))
    if draw(st.integers(0, 2)) == 0:
        j = draw(trees.any_trees(max_nodes=6))
        return {'k': 'tree', 'model': spec, 'tree': j}
    t = build_table(spec)
    pool = [p for p in t['roles'] if '[' not in p] + list(spec.get('pool', [])) + [':ARG0', ':op12', ':x2y10', ':foo', '', ':', 'q']
    if draw(st.integers(0, 3)) == 0:
        b = ''.join(draw(st.lists(st.sampled_from(list('abof-:19.') + ['-of', 'ARG', 'op', 'x']), max_size=8)))
    else:
        b = draw(st.sampled_from(pool))
        if draw(st.integers(0, 4)) == 0 and b.startswith(':'):
            b = b[1:]
    chained = [(k_, v_) for k_, v_ in t['normalizations'].items() if v_ in t['normalizations']]
    if chained and draw(st.booleans()):
        # a normalisation chain k -> v -> w: ask for k first, then for v (one lookup each; order must not matter)
        k_, v_ = chained[draw(st.integers(0, len(chained) - 1))]
        return {'k': 'role', 'model': spec, 'r': v_, 'first': k_}
    case = {'k': 'role', 'model': spec, 'r': b + '-of' * draw(st.sampled_from([0, 1, 2, 3, 4, 4, 5, 10, 13]))}
    if draw(st.booleans()):
        keys = sorted(t['normalizations']) + sorted(t['normalizations'].values()) + pool
        case['first'] = keys[draw(st.integers(0, len(keys) - 1))] + '-of' * draw(st.integers(0, 2))
    return case


def stages(tier):
    return [
        Enum('exhaustive-roles', _enum_chunks, _enum_cases,
             'base + k x "-of", k in 0..4, for every base derived from the role tables of default, amr, noop, mini and two fixed custom tables'),
        Hyp('random', _random, 8000, 350000),
    ]
