"""C17  Calls are pure and deterministic."""
import base64
import copy
import hashlib
import json
import os
import pickle
import subprocess
import sys

from hypothesis import strategies as st
from hypothesis.stateful import RuleBasedStateMachine, initialize, rule

import penman
from penman import layout, surface, transform
from penman.tree import Tree

from pv.gen import trees
from pv.gen.base import pick
from pv.harness import ROOT, Hyp, Machine, tmpdir
from pv.props.common import short
from pv.ref import cli, graphm, interp
from pv.ref.role import build_model, build_table

ID = 'C17'
TECHNIQUE = 'Hypothesis rule-based state machine over a pool of shared trees/graphs: by-value snapshots of every argument after every call, repeat-call and earlier-call equality; the same histories re-executed on pickled arguments and in fresh interpreters under PYTHONHASHSEED 1, 2 and random, compared by digest; CLI output bytes compared across hash seeds'
RULE = ('cases: histories of calls (format, interpret, decode, encode, configure, reconfigure, the four transformations, canonicalize_roles, '
        'graph queries, | and -, Model.errors, layout diagnostics, alignments, format_triples) on a pool of three shared well-formed '
        'trees/graphs, interleaved with in-place calls (rearrange, reset_variables, |=, -=) applied to RESULTS; batches of such histories '
        'and CLI invocations re-run under other hash seeds / on pickled arguments. Non-trivial: a history with >= 3 calls incl. >= 1 '
        'transformation. Distinct by case content.')
ASSUMPTIONS = ['dict key order of Graph.epidata is not part of the comparison (by-value content is)',
               'random ordering keys are excluded',
               'the library has no threads or global mutable state besides random and the POP singleton: schedules reduce to call order, '
               'process boundary (pickling) and hash seed']

KEYS = [None, 'original', 'alphanumeric', 'canonical']
PURE_OPS = ['format', 'interpret', 'decode', 'encode', 'configure', 'reconfigure', 'reify_edges', 'dereify_edges', 'reify_attributes',
            'indicate_branches', 'canonicalize_roles', 'queries', 'or', 'sub', 'errors', 'diagnostics', 'alignments', 'format_triples',
            'eq', 'errors-disconnected']
INPLACE_OPS = ['inplace-rearrange', 'inplace-reset', 'inplace-ior', 'inplace-isub', 'inplace-canon-rearrange', 'inplace-parse-result']
TRANSFORMS = {'reify_edges', 'dereify_edges', 'reify_attributes', 'indicate_branches', 'canonicalize_roles', 'reconfigure'}


def tree_fp(t):
    return ['tree', interp.to_json(t.node), sorted(t.metadata.items())]


def graph_fp(g):
    j = graphm.graph_to_json(g)
    j['epi'] = sorted(j['epi'], key=repr)
    return ['graph', j['triples'], j['top'], j['epi'], sorted(j['meta'].items())]


def _fp(x):
    if isinstance(x, Tree):
        return tree_fp(x)
    if isinstance(x, penman.Graph):
        return graph_fp(x)
    if isinstance(x, dict):
        return ['dict', sorted(([repr(k), _fp(v)] for k, v in x.items()), key=repr)]
    if isinstance(x, (set, frozenset)):
        return ['set', sorted(map(repr, x))]
    if isinstance(x, (list, tuple)):
        return ['list', [_fp(v) for v in x]]
    if isinstance(x, (str, int, float, bool)) or x is None:
        return x
    return repr(x)


def build_pool(case):
    m = build_model(case['model'])
    pool = []
    for j in case['trees']:
        t = Tree(interp.to_node(j), metadata={'id': '1'})
        pool.append({'tree': t, 'graph': layout.interpret(t, m)})
    return pool, m


def pool_fp(pool):
    return [[tree_fp(p['tree']), graph_fp(p['graph'])] for p in pool]


def run_op(op, pool, m):
    """-> fingerprint of the result (JSON-able)"""
    k = op[0]
    n = len(pool)
    p = pool[op[1] % n]
    g, t = p['graph'], p['tree']
    vs = sorted(g.variables(), key=repr)
    if k == 'format':
        return penman.format(t, indent=op[2], compact=op[3])
    if k == 'interpret':
        return _fp(layout.interpret(t, m))
    if k == 'decode':
        return _fp(penman.decode(penman.format(t, indent=None), model=m))
    if k == 'encode':
        top = None if op[2] is None else vs[op[2] % len(vs)]
        return penman.encode(g, top=top, model=m, indent=op[3])
    if k == 'configure':
        top = None if op[2] is None else vs[op[2] % len(vs)]
        return _fp(layout.configure(g, top=top, model=m))
    if k == 'reconfigure':
        top = None if op[2] is None else vs[op[2] % len(vs)]
        key = None if op[3] is None else getattr(m, op[3] + '_order')
        return _fp(layout.reconfigure(g, top=top, model=m, key=key))
    if k == 'reify_edges':
        return _fp(transform.reify_edges(g, m))
    if k == 'dereify_edges':
        return _fp(transform.dereify_edges(g, m))
    if k == 'reify_attributes':
        return _fp(transform.reify_attributes(g))
    if k == 'indicate_branches':
        return _fp(transform.indicate_branches(g, m))
    if k == 'canonicalize_roles':
        return _fp(transform.canonicalize_roles(t, m))
    if k == 'queries':
        return _fp([g.top, g.variables(), g.instances(), g.edges(), g.attributes(), g.reentrancies(),
                    g.edges(source=vs[0]) if vs else None, [list(x) for x in t.nodes()] and len(t.nodes()), [list(map(str, s[0])) for s in t.walk()]])
    if k in ('or', 'sub'):
        h = pool[op[2] % n]['graph']
        return _fp((g | h) if k == 'or' else (g - h))
    if k == 'eq':
        h = pool[op[2] % n]['graph']
        return [g == h, t == pool[op[2] % n]['tree']]
    if k == 'errors':
        return _fp(m.errors(g))
    if k == 'errors-disconnected':
        # a hand-built graph with two unreachable copies of another pool graph whose variable names only differ in the
        # zero-padding of a numeric suffix (zq1 / zq01); the ORDER of the report is part of the result (error-N numbering)
        h = pool[op[2] % n]['graph']
        hv = sorted(h.variables(), key=repr)
        parts = list(g.triples)
        for pat in ('zq%d', 'zq0%d', 'zq00%d'):
            ren = {v: pat % (i + 1) for i, v in enumerate(hv)}
            parts += [(ren[s_], r_, ren.get(t_, t_) if r_ != ':instance' else t_) for s_, r_, t_ in h.triples]
        e = m.errors(penman.Graph(parts, top=g.top))
        return ['errors-in-order', [[repr(k_), list(v_)] for k_, v_ in e.items()]]
    if k == 'diagnostics':
        return _fp([layout.node_contexts(g), [layout.get_pushed_variable(g, x) for x in g.triples],
                    [layout.appears_inverted(g, x) for x in g.triples]])
    if k == 'alignments':
        return _fp([{a: str(b) for a, b in surface.alignments(g).items()}, {a: str(b) for a, b in surface.role_alignments(g).items()}])
    if k == 'format_triples':
        return penman.format_triples(g.triples, indent=bool(op[2]))
    # in-place calls, applied to RESULTS of pure calls: the shared arguments must not move
    if k == 'inplace-rearrange':
        r = layout.configure(g, model=m)
        key = None if op[2] is None else getattr(m, op[2] + '_order')
        layout.rearrange(r, key=key, attributes_first=bool(op[3]))
        return _fp(r)
    if k == 'inplace-reset':
        r = layout.configure(g, model=m)
        r.reset_variables(op[2])
        r.metadata = dict(r.metadata)
        return _fp(r)
    if k == 'inplace-canon-rearrange':
        r = transform.canonicalize_roles(t, m)
        key = None if op[2] is None else getattr(m, op[2] + '_order')
        layout.rearrange(r, key=key, attributes_first=bool(op[3]))
        r.reset_variables('q{i}')
        return _fp(r)
    if k == 'inplace-parse-result':
        text = penman.format(t, indent=None)
        r = penman.parse(text)
        layout.rearrange(r, key=m.canonical_order, attributes_first=True)
        r.reset_variables('q{i}')
        r.metadata['__scribble'] = 'x'
        stack = [r.node]
        while stack:
            nd = stack.pop()
            for rr, xx in nd[1]:
                if not interp.is_atom(xx):
                    stack.append(xx)
            nd[1].append((':scribble', 'z'))
        g2 = penman.decode(text, model=m)
        return [_fp(r), _fp(g2)]
    if k in ('inplace-ior', 'inplace-isub'):
        h = pool[op[2] % n]['graph']
        r = [transform.reify_attributes, lambda x: transform.indicate_branches(x, m), lambda x: transform.dereify_edges(x, m),
             lambda x: x | h][op[3] % 4](g)
        if k == 'inplace-ior':
            r |= h
        else:
            r -= h
        return _fp(r)
    raise ValueError(k)


def sig(op):
    return json.dumps(op)


def run_history(case, pool=None, m=None):
    """-> (failures, list of result fingerprints)"""
    if pool is None:
        pool, m = build_pool(case)
    base = pool_fp(pool)
    seen = {}
    f = []
    fps = []
    for i, op in enumerate(case['ops']):
        lab = 'step %d %r of %s' % (i + 1, op, short(case['ops'], 200))
        r1 = run_op(op, pool, m)
        if pool_fp(pool) != base:
            f.append(('argument-changed:' + op[0], lab + ' on ' + short([penman.format(p['tree'], indent=None) for p in pool], 300)))
            return f, fps
        r2 = run_op(op, pool, m)
        if r1 != r2:
            f.append(('repeat-differs:' + op[0], '%s: %s vs %s' % (lab, short(r1, 200), short(r2, 200))))
            return f, fps
        if pool_fp(pool) != base:
            f.append(('argument-changed:' + op[0], lab))
            return f, fps
        s = sig(op)
        if s in seen and seen[s] != r1:
            f.append(('interleaving-differs:' + op[0], '%s: %s vs earlier %s' % (lab, short(r1, 200), short(seen[s], 200))))
            return f, fps
        seen[s] = r1
        fps.append(r1)
    return f, fps


def digest(x):
    return hashlib.sha256(json.dumps(x, sort_keys=True, default=repr).encode('utf-8', 'surrogatepass')).hexdigest()[:24]


def run_sub(sub, from_pickle=None):
    """digest list for one sub-case of a batch (history or CLI invocation)"""
    if sub['k'] == 'cli':
        code, out, err = cli.run_inprocess(sub['argv'], sub['stdin'])
        return digest([code, out])
    if from_pickle is not None:
        pool = pickle.loads(base64.b64decode(from_pickle))
        m = build_model(sub['model'])
        f, fps = run_history(sub, pool, m)
    else:
        f, fps = run_history(sub)
    return digest([f, fps])


def check(case):
    if case['k'] == 'hist':
        f, fps = run_history(case)
        if f:
            return f
        # the same history on arguments that went through pickle (what multiprocessing does to them)
        pool, m = build_pool(case)
        pool2 = pickle.loads(pickle.dumps(pool))
        f2, fps2 = run_history(case, pool2, m)
        if f2:
            return [('pickled:' + f2[0][0], f2[0][1])]
        if fps2 != fps:
            k = next(i for i, (a, b) in enumerate(zip(fps, fps2)) if a != b)
            return [('pickled-arguments-differ:' + case['ops'][k][0], 'step %d %r: %s vs %s' % (k + 1, case['ops'][k], short(fps[k], 200), short(fps2[k], 200)))]
        return []
    # batch: same digests in this process, in fresh interpreters under other hash seeds, and there on pickled arguments
    subs = case['subs']
    mine = [run_sub(s) for s in subs]
    pickles = []
    for s in subs:
        if s['k'] == 'hist':
            pool, m = build_pool(s)
            pickles.append(base64.b64encode(pickle.dumps(pool)).decode('ascii'))
        else:
            pickles.append(None)
    d = tmpdir()
    path = os.path.join(d, 'batch.json')
    with open(path, 'w', encoding='utf-8') as fh:
        json.dump({'subs': subs, 'pickles': pickles}, fh)
    f = []
    for hs in case['hashseeds']:
        env = dict(os.environ, PYTHONHASHSEED=str(hs))
        try:
            # one of the other interpreters also runs with -O (assert statements are compiled away there)
            flags = ['-O'] if str(hs) == str(case['hashseeds'][-1]) and len(case['hashseeds']) > 1 else []
            p = subprocess.run([sys.executable] + flags + ['-m', 'pv.props.c17_worker', path], env=env, stdout=subprocess.PIPE, stderr=subprocess.PIPE,
                               timeout=600, cwd=ROOT)
        except subprocess.TimeoutExpired:
            continue        # inconclusive, never a violation
        if p.returncode != 0:
            f.append(('worker-failed', 'PYTHONHASHSEED=%s: %s' % (hs, p.stderr.decode('utf-8', 'replace')[-600:])))
            break
        res = json.loads(p.stdout.decode('utf-8'))
        for i, s in enumerate(subs):
            if res['plain'][i] != mine[i]:
                what = 'cli-output-differs-across-hash-seeds' if s['k'] == 'cli' else 'result-differs-across-hash-seeds'
                f.append((what, 'PYTHONHASHSEED=%s vs 0: %s' % (hs, short(s, 400))))
                break
            if s['k'] == 'hist' and res['pickled'][i] != mine[i]:
                f.append(('result-differs-on-pickled-arguments-in-other-process', 'PYTHONHASHSEED=%s: %s' % (hs, short(s, 400))))
                break
        if f:
            break
    return f


def nontrivial(case):
    if case['k'] == 'hist':
        ops = [o[0] for o in case['ops']]
        return len(ops) >= 3 and any(o in TRANSFORMS or o.startswith('inplace') for o in ops)
    return len(case['subs']) >= 2


def classes(case):
    if case['k'] == 'hist':
        return ['history', 'model:' + case['model'].get('name', 'custom')] + sorted({'op:' + o[0] for o in case['ops']})
    out = ['batch', 'batch-size:%d' % len(case['subs'])]
    if any(s['k'] == 'cli' for s in case['subs']): out.append('batch-has-cli')
    return out


@st.composite
def _op(draw):
    k = draw(st.sampled_from(PURE_OPS + PURE_OPS + INPLACE_OPS))
    i = draw(st.integers(0, 2))
    if k == 'format':
        return [k, i, draw(st.sampled_from([None, -1, 2])), draw(st.booleans())]
    if k in ('encode',):
        return [k, i, draw(st.sampled_from([None, 0, 1, 2, 3])), draw(st.sampled_from([None, -1]))]
    if k == 'configure':
        return [k, i, draw(st.sampled_from([None, 0, 1, 2, 3]))]
    if k == 'reconfigure':
        return [k, i, draw(st.sampled_from([None, 0, 1, 2])), draw(st.sampled_from(KEYS))]
    if k in ('or', 'sub', 'eq', 'errors-disconnected'):
        return [k, i, draw(st.integers(0, 2))]
    if k == 'format_triples':
        return [k, i, draw(st.booleans())]
    if k in ('inplace-rearrange', 'inplace-canon-rearrange'):
        return [k, i, draw(st.sampled_from(KEYS)), draw(st.booleans())]
    if k == 'inplace-reset':
        return [k, i, draw(st.sampled_from(['{prefix}{j}', 'v{i}']))]
    if k in ('inplace-ior', 'inplace-isub'):
        return [k, i, draw(st.integers(0, 2)), draw(st.integers(0, 3))]
    return [k, i]


C17_ROLES = [':ARG0', ':ARG1', ':mod', ':domain', ':op1', ':op2', ':polarity', ':quant', ':location', ':poss', ':foo', ':']


@st.composite
def _pool_spec(draw):
    spec = {'name': draw(st.sampled_from(['amr', 'amr', 'default', 'mini']))}
    concepts = trees.CONCEPTS + ['have-mod-91', 'own-01', 'be-located-at-91']
    big = draw(st.integers(0, 5)) == 0
    ts = [draw(trees.wf_trees(spec, max_nodes=22 if (big and i == 0) else 5, concepts=concepts, emptyconcept=False, wide=8 if (big and i == 0) else 3)) for i in range(3)]
    table = build_table(spec)
    if table['reifications']:
        ts = [trees.reify_in_tree(draw, t, table, prob=(1, 3)) if draw(st.booleans()) else t for t in ts]
    if draw(st.booleans()):
        ts[2] = ts[0] if draw(st.booleans()) else ts[2]     # overlapping graphs make | and - interesting
    return spec, ts


@st.composite
def _hist(draw, maxops=10):
    spec, ts = draw(_pool_spec())
    ops = [draw(_op()) for _ in range(draw(st.integers(1, maxops)))]
    return {'k': 'hist', 'model': spec, 'trees': ts, 'ops': ops}


CLI_OPTS = ['--canonicalize-roles', '--reify-edges', '--dereify-edges', '--reify-attributes', '--indicate-branches', '--compact', '--triples',
            '--check']


@st.composite
def _cli_sub(draw):
    spec, ts = draw(_pool_spec())
    text = '\n\n'.join(penman.format(Tree(interp.to_node(j)), indent=None) for j in ts) + '\n'
    argv = {'amr': ['--amr'], 'default': [], 'mini': []}[spec['name']]
    for o in CLI_OPTS:
        if draw(st.integers(0, 3)) == 0:
            argv.append(o)
    r = draw(st.sampled_from([None, 'canonical', 'alphanumeric', 'attributes-first,canonical', 'inverted-last,alphanumeric', 'alphanumeric,inverted-last',
                              'inverted-last,alphanumeric,attributes-first']))
    if r:
        argv += ['--rearrange', r]
    r = draw(st.sampled_from([None, 'original', 'canonical']))
    if r:
        argv += ['--reconfigure', r]
    if draw(st.integers(0, 3)) == 0:
        argv += ['--make-variables', '{prefix}{j}']
    return {'k': 'cli', 'argv': argv, 'stdin': text}


@st.composite
def _batch(draw, n):
    subs = []
    for _ in range(n):
        if draw(st.integers(0, 3)) == 0:
            subs.append(draw(_cli_sub()))
        else:
            subs.append(draw(_hist(maxops=6)))
    return {'k': 'batch', 'subs': subs, 'hashseeds': [1, 2, 'random']}


def _machine(report):
    class SharedArguments(RuleBasedStateMachine):
        """Pool of three trees/graphs shared by every call; each rule records one call; the finished history is replayed by check():
        snapshots of all pool members after every call, repeat-call and earlier-call equality, pickled-argument re-run."""

        def __init__(self):
            super().__init__()
            self.case = None

        @initialize(ps=_pool_spec())
        def start(self, ps):
            self.case = {'k': 'hist', 'model': ps[0], 'trees': ps[1], 'ops': []}

        @rule(op=_op())
        def call(self, op):
            self.case['ops'].append(op)

        @rule(i=st.integers(0, 2), j=st.integers(0, 2), how=st.integers(0, 3))
        def transform_then_inplace_union(self, i, j, how):
            self.case['ops'].append(['inplace-ior', i, j, how])

        @rule(i=st.integers(0, 2), key=st.sampled_from(KEYS), af=st.booleans())
        def configure_then_rearrange(self, i, key, af):
            self.case['ops'].append(['inplace-rearrange', i, key, af])

        @rule(i=st.integers(0, 2), t=st.sampled_from(['reify_edges', 'dereify_edges', 'reify_attributes', 'indicate_branches', 'canonicalize_roles']))
        def transformation(self, i, t):
            self.case['ops'].append([t, i])

        def teardown(self):
            if self.case is not None and self.case['ops']:
                report(self.case)

    return SharedArguments


def stages(tier):
    # NB: the first example of every Hypothesis run is the minimal one (trivial batch), so each shard gets several examples;
    # batches are small (6 sub-cases) because larger composite draws overrun Hypothesis' entropy buffer
    if tier == 'quick':
        return [
            Machine('shared-argument-machine', _machine, (1500, 15), (30000, 40)),
            Hyp('hash-seed-batches', lambda: _batch(6), 72, 72, shards=12),
        ]
    return [
        Machine('shared-argument-machine', _machine, (1500, 15), (30000, 40)),
        Hyp('hash-seed-batches', lambda: _batch(6), 72, 1600, shards=16),
    ]
