"""Child interpreter of the C17 hash-seed / process stage: re-runs a batch and prints the digests as JSON."""
import json
import logging
import sys


def main():
    logging.disable(logging.CRITICAL)
    from pv.props import c17
    with open(sys.argv[1], encoding='utf-8') as fh:
        doc = json.load(fh)
    plain, pickled = [], []
    for sub, pk in zip(doc['subs'], doc['pickles']):
        plain.append(c17.run_sub(sub))
        pickled.append(c17.run_sub(sub, from_pickle=pk) if pk is not None else None)
    json.dump({'plain': plain, 'pickled': pickled}, sys.stdout)


if __name__ == '__main__':
    main()
