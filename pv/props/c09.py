"""C09  The same text means the same graphs in every container and stream framing."""
import io
import os
import pathlib

from hypothesis import strategies as st

import penman
from penman import layout
from penman.exceptions import DecodeError
from penman.tree import Tree

from pv.gen import models, trees
from pv.gen.base import EXOTIC
from pv.harness import ROOT, Enum, Hyp
from pv.props.c08 import split_keepends
from pv.props.common import short
from pv.ref import graphm, interp
from pv.ref import lex as rlex
from pv.ref.role import build_model

ID = 'C09'
TECHNIQUE = 'differential/metamorphic oracle over Hypothesis-generated streams: the same text through six containers (str, lines, lines with terminators, StringIO, file name, file object) x three line terminators x three separators must give the graphs that were written; dumps/loads and dump/load round trips'
RULE = ('cases: streams of 0..4 well-formed graphs, each with 0..3 metadata keys (empty values, values with ; ( ) " # VT FF and '
        'non-ASCII separators NBSP U+3000 U+2028 U+2029 U+0085 U+001C-1E) rendered with a sampled indent/compact option, line '
        'terminator in {LF, CRLF, CR}, separator in {blank line, newline, space, nothing}; plus raw comment lines (several keys per line, '
        'junk before the first "::"). Non-trivial: >= 2 graphs with >= 1 metadata key, or a metadata value containing a '
        'non-ASCII separator or delimiter. Distinct by case content.')
ASSUMPTIONS = ['file-like containers are opened the way load(path) opens files (universal newlines); io.StringIO(text, newline=None)',
               'files are written byte-exactly (newline="") as UTF-8 into a per-process directory under out/tmp, removed afterwards',
               'expected graphs come from interpreting the generated trees directly (no text involved)']

def _tmpdir():
    from pv import harness
    return harness.tmpdir()


def _interface():
    """the deprecated alias module of the same functions (still importable, still documented as equivalent)"""
    import importlib
    import warnings
    with warnings.catch_warnings():
        warnings.simplefilter('ignore')
        return importlib.import_module('penman.interface')


def _late_codec(m):
    c = penman.PENMANCodec()
    c.model = m             # a public attribute: what the codec decodes and encodes with
    return c


def _gsig(g):
    return (g.top, list(g.triples),
            sorted(((t, [graphm.marker_to_json(m) for m in ms]) for t, ms in g.epidata.items() if ms), key=repr),
            dict(g.metadata))


def _outcome(fn):
    try:
        return ('ok', [_gsig(g) for g in fn()])
    except DecodeError as e:
        return ('rej', e.lineno, e.offset)


TERM = {'LF': '\n', 'CRLF': '\r\n', 'CR': '\r'}


def _build_text(case, m):
    term = TERM[case['term']]
    sep = {'blank': term + term, 'newline': term, 'space': ' ', 'none': ''}[case['sep']]
    parts = []
    expected = []
    for gspec in case['graphs']:
        node = interp.to_node(gspec['tree'])
        t = Tree(node, metadata=dict(gspec.get('meta') or {}))
        s = penman.format(t, indent=case['indent'], compact=case['compact'])
        for raw in gspec.get('rawcomments', []):
            s = raw + '\n' + s
        if case.get('gap') and s.startswith('#'):
            # a blank (or blanks-only) line after the k-th comment line: inside the comment block or between it and the graph
            ls = s.split('\n')
            nc = 0
            while nc < len(ls) and ls[nc].startswith('#'):
                nc += 1
            at = 1 + (case['gap'][0] % nc)
            ls[at:at] = [case['gap'][1]]
            s = '\n'.join(ls)
        parts.append(s.replace('\n', term))
        expected.append(t)
    text = sep.join(parts)
    if case.get('final_newline'):
        text += term
    if case.get('repeat'):
        text = (text + term) * case['repeat']
        expected = expected * case['repeat']
    if case.get('bom'):
        text = '\ufeff' + text
    return text, expected


def check(case):
    spec = case['model']
    m = build_model(spec)
    for gspec in case['graphs']:
        if gspec['tree'][0] is None and not gspec['tree'][1]:
            continue            # the empty graph "()", which may carry metadata like any other
        if interp.wellformed(interp.to_node(gspec['tree']), spec) is not None:
            return []
    f = []
    text, trees_ = _build_text(case, m)
    # results of earlier calls belong to the caller: scribbling on them must not change what the text means afterwards
    try:
        if not case.get('bom'):
            for t0 in penman.iterparse(text):
                t0.metadata['__scribble'] = 'x'
                t0.node[1].reverse()
                if t0.node[0] is not None:
                    t0.reset_variables('q{i}')
            g0s = penman.loads(text, model=m)
            for g0 in g0s:
                g0.metadata['__scribble'] = 'x'
                g0.triples.reverse()
                for ms0 in g0.epidata.values():
                    for mk0 in ms0:
                        if hasattr(mk0, 'indices'):
                            mk0.indices = (99,)        # markers of an earlier result belong to the caller as well
                            mk0.prefix = 'zz.'
            for chunk in [text] if len(text) < 4000 else []:
                t1 = penman.parse(chunk) if case['graphs'] else None
                if t1 is not None:
                    t1.metadata['__scribble'] = 'y'
                    t1.node[1].append((':scribble', 'z'))
    except DecodeError:
        pass
    want = []
    for t, gspec in zip(trees_, case['graphs'] * (case.get('repeat') or 1)):
        g = layout.interpret(t, m)
        sig = _gsig(g)
        if gspec.get('rawcomments'):
            sig = sig[:3] + (None,)     # metadata of raw comment lines: compared across containers only
        want.append(sig)
    d = _tmpdir()
    path = os.path.join(d, 'in.txt')
    with open(path, 'w', encoding='utf-8', newline='') as fh:
        fh.write(text)
    lines = rlex.split_lines(text)
    klines = split_keepends(text)

    def via_fileobj():
        with open(path, encoding='utf-8') as fh:
            return penman.load(fh, model=m)

    lines_before, klines_before = list(lines), list(klines)
    containers = [
        ('str', lambda: penman.loads(text, model=m)),
        ('iterdecode-str', lambda: list(penman.iterdecode(text, model=m))),
        ('lines', lambda: list(penman.iterdecode(lines, model=m))),
        ('lines+terminators', lambda: list(penman.iterdecode(klines, model=m))),
        ('StringIO', lambda: penman.load(io.StringIO(text, newline=None), model=m)),
        ('filename', lambda: penman.load(path, model=m, encoding='utf-8')),
        ('fileobj', via_fileobj),
        ('Path', lambda: penman.load(pathlib.Path(path), model=m, encoding='utf-8')),
        # all trees first, interpretation afterwards (a tree must not depend on the iterator that produced it)
        ('list(iterparse)+interpret', lambda: [layout.interpret(t, m) for t in list(penman.iterparse(text))]),
        ('list(codec.iterparse)+interpret', lambda: [layout.interpret(t, m) for t in list(penman.PENMANCodec(model=m).iterparse(klines))]),
        ('list(codec.iterdecode)', lambda: list(penman.PENMANCodec(model=m).iterdecode(lines))),
        ('codec.model assigned after construction', lambda: list(_late_codec(m).iterdecode(text))),
        ('penman.interface.loads', lambda: _interface().loads(text, model=m)),
        ('penman.interface.load(path)', lambda: _interface().load(path, model=m, encoding='utf-8')),
    ]
    import locale
    if locale.getpreferredencoding(False).lower().replace('-', '') == 'utf8':
        # no encoding given: the platform default, which is UTF-8 here (a leading U+FEFF stays an ordinary character)
        containers.append(('filename, default encoding', lambda: penman.load(path, model=m)))
    if len(case['graphs']) * (case.get('repeat') or 1) == 1 and not case.get('bom'):
        containers.append(('decode', lambda: [penman.decode(text, model=m)]))
        containers.append(('codec.decode', lambda: [penman.PENMANCodec(model=m).decode(text)]))
    outs = [(name, _outcome(fn)) for name, fn in containers]
    if lines != lines_before or klines != klines_before:
        f.append(('container-mutated', '%s: the list of lines handed to iterdecode was changed' % short(text, 200)))
    base = outs[0]
    for name, o in outs[1:]:
        if o != base[1]:
            f.append(('containers-disagree', '%s: str -> %s, %s -> %s' % (short(text, 200), short(base[1], 240), name, short(o, 240))))
            break
    if case.get('bom'):
        return f        # a leading U+FEFF is an ordinary name character: only agreement between the containers is asserted
    if base[1][0] != 'ok':
        f.append(('stream-rejected', '%s: DecodeError at %r' % (short(text, 200), base[1][1:])))
    else:
        got = base[1][1]
        if len(got) != len(want):
            f.append(('graph-count', '%s: %d graphs written, %d read' % (short(text, 200), len(want), len(got))))
        else:
            for k, (a, b) in enumerate(zip(got, want)):
                if b[3] is None:
                    a = a[:3] + (None,)
                if a != b:
                    what = 'metadata-attachment' if a[:3] == b[:3] else 'graph-content'
                    f.append((what, '%s: graph %d read as %s, written %s' % (short(text, 200), k, short(a, 240), short(b, 240))))
                    break
    # dumps/loads and dump/load
    if not f and not case.get('repeat') and not any(g.get('rawcomments') for g in case['graphs']):
        gs = [layout.interpret(t, m) for t in trees_]
        s = penman.dumps(gs, model=m, indent=case['indent'], compact=case['compact'])
        back = _outcome(lambda: penman.loads(s, model=m))
        if back != ('ok', want):
            f.append(('dumps-loads', '%s -> %s' % (short(s, 200), short(back, 300))))
        # graphs handed over as a one-shot iterator (documented: an iterable of graphs), through the codec object whose
        # model was assigned after construction, and through the deprecated alias module
        for how, s2 in (('iterator', penman.dumps(iter(gs), model=m, indent=case['indent'], compact=case['compact'])),
                        ('generator', penman.dumps((g_ for g_ in gs), model=m, indent=case['indent'], compact=case['compact'])),
                        ('penman.interface.dumps', _interface().dumps(gs, model=m, indent=case['indent'], compact=case['compact']))):
            if s2 != s:
                f.append(('dumps-variants', 'dumps of a list gives %s, %s gives %s' % (short(s, 200), how, short(s2, 200))))
                break
        p2 = os.path.join(d, 'out.txt')
        p5 = os.path.join(d, 'out5.txt')
        _interface().dump(iter(gs), p5, model=m, indent=case['indent'], compact=case['compact'], encoding='utf-8')
        back = _outcome(lambda: penman.load(p5, model=m, encoding='utf-8'))
        if back != ('ok', want):
            f.append(('dump-load-file', 'penman.interface.dump of an iterator: %s' % short(back, 300)))
        penman.dump(gs, p2, model=m, indent=case['indent'], compact=case['compact'], encoding='utf-8')
        back = _outcome(lambda: penman.load(p2, model=m, encoding='utf-8'))
        if back != ('ok', want):
            f.append(('dump-load-file', '%s -> %s' % (short(open(p2, encoding='utf-8', newline='').read(), 200), short(back, 300))))
        late = '\n\n'.join(_late_codec(m).encode(g_, indent=case['indent'], compact=case['compact']) for g_ in gs)
        back = _outcome(lambda: penman.loads(late, model=m))
        if back != ('ok', want):
            f.append(('late-codec-encode-loads', '%s -> %s' % (short(late, 200), short(back, 300))))
        # a pathlib.Path target and a non-default encoding, the same on both sides
        enc = case.get('enc') or 'utf-8'
        try:
            s.encode(enc)
        except UnicodeEncodeError:
            enc = 'utf-8'
        p3 = pathlib.Path(d) / 'out3.txt'
        penman.dump(gs, p3, model=m, indent=case['indent'], compact=case['compact'], encoding=enc)
        back = _outcome(lambda: penman.load(p3, model=m, encoding=enc))
        if back != ('ok', want):
            f.append(('dump-load-path', 'encoding=%s: %s -> %s' % (enc, short(s, 200), short(back, 300))))
        p4 = os.path.join(d, 'out4.txt')
        codec = penman.PENMANCodec(model=m)
        with open(p4, 'w', encoding=enc) as fh:
            penman.dump(gs, fh, model=m, indent=case['indent'], compact=case['compact'])
        back = _outcome(lambda: penman.load(p4, model=m, encoding=enc))
        if back != ('ok', want):
            f.append(('dump-fileobj-load-name', 'encoding=%s: %s -> %s' % (enc, short(s, 200), short(back, 300))))
        buf = io.StringIO()
        penman.dump(gs, buf, model=m, indent=case['indent'], compact=case['compact'])
        back = _outcome(lambda: penman.loads(buf.getvalue(), model=m))
        if back != ('ok', want):
            f.append(('dump-load-stream', '%s -> %s' % (short(buf.getvalue(), 200), short(back, 300))))
    return f


def _special_meta(case):
    for g in case['graphs']:
        for k, v in (g.get('meta') or {}).items():
            if any(c in v for c in EXOTIC) or any(c in v for c in ';()"#'):
                return True
    return False


def nontrivial(case):
    n = len(case['graphs'])
    return (n >= 2 and any(g.get('meta') for g in case['graphs'])) or _special_meta(case)


def classes(case):
    out = ['graphs:%d' % len(case['graphs']), 'term:' + case['term'], 'sep:' + case['sep'], 'indent:%r' % (case['indent'],)]
    if any(g.get('meta') for g in case['graphs']): out.append('metadata')
    if _special_meta(case): out.append('metadata:special-chars')
    if any(g.get('rawcomments') for g in case['graphs']): out.append('raw-comment-lines')
    if any(g['tree'][0] is None for g in case['graphs']): out.append('empty-graph-in-stream')
    if any(g.get('cross') for g in case['graphs']): out.append('constant-spelled-like-variable-of-earlier-graph')
    if case.get('gap') and any(g.get('meta') or g.get('rawcomments') for g in case['graphs']): out.append('blank-line-inside-or-after-comment-block')
    if case.get('enc'): out.append('file-encoding:' + case['enc'])
    if any(v == '' for g in case['graphs'] for v in (g.get('meta') or {}).values()): out.append('metadata:empty-value')
    return out


RAW = ['# plain', '# ::a 1 ::b 2', '#junk ::k v', '# ::', '#', '# :: v', '# ::k', '# x :: y ::z', '# ::t ( / : ~ " )']


@st.composite
def _cases(draw):
    spec = draw(st.sampled_from([{'name': 'default'}, {'name': 'default'}, {'name': 'amr'}, {'name': 'noop'}]))
    n = draw(st.sampled_from([0, 1, 1, 2, 2, 3, 4]))
    gs = []
    for _ in range(n):
        g = {'tree': draw(trees.wf_trees(spec, max_nodes=4)), 'meta': draw(trees.metadata())}
        if draw(st.integers(0, 5)) == 0:
            g['meta'] = {}
            g['rawcomments'] = draw(st.lists(st.sampled_from(RAW), min_size=1, max_size=2))
        if draw(st.integers(0, 11)) == 0:
            g = {'tree': [None, []], 'meta': draw(trees.metadata())}
        gs.append(g)
    if len(gs) >= 2 and draw(st.integers(0, 2)) == 0:
        # a later graph has an attribute with an inverted role whose constant is spelled like a node variable of an EARLIER
        # graph of the stream (each graph is read on its own: it stays an attribute there)
        j2 = draw(st.integers(1, len(gs) - 1))
        i2 = draw(st.integers(0, j2 - 1))
        if gs[i2]['tree'][0] is not None and gs[j2]['tree'][0] is not None:
            earlier = interp.node_vars(interp.to_node(gs[i2]['tree']))
            mine = set(interp.node_vars(interp.to_node(gs[j2]['tree'])))
            cand = [v for v in earlier if v not in mine]
            if cand:
                br = [draw(st.sampled_from([':ARG0-of', ':mod-of', ':quant-of'])), cand[draw(st.integers(0, len(cand) - 1))]]
                if br not in gs[j2]['tree'][1]:
                    gs[j2]['tree'][1].append(br)
                    gs[j2]['cross'] = True
    return {'graphs': gs, 'model': spec, 'term': draw(st.sampled_from(['LF', 'CRLF', 'CR'])),
            'sep': draw(st.sampled_from(['blank', 'newline', 'space', 'none'])),
            'indent': draw(st.sampled_from([-1, None, 0, 2, 5])), 'compact': draw(st.booleans()),
            'final_newline': draw(st.booleans()), 'bom': draw(st.integers(0, 11)) == 0,
            'gap': [draw(st.integers(0, 5)), draw(st.sampled_from(['', '', ' ', '\t ']))] if draw(st.integers(0, 3)) == 0 else None,
            'enc': draw(st.sampled_from(['utf-8', 'latin-1', 'utf-16', 'cp1252', 'utf-8-sig', 'utf-32']))}


def _huge_chunks(tier):
    return [{'term': t, 'n': n} for t in ('LF', 'CRLF', 'CR') for n in ((900,) if tier == 'quick' else (900, 4000))]


def _huge_cases(ch):
    g = {'tree': ['a', [['/', 'alpha'], [':ARG0', ['b', [['/', 'beta~1']]]], [':mod', '"a string"']]], 'meta': {'id': '7', 'snt': 'a b c'}}
    yield {'graphs': [g], 'model': {'name': 'default'}, 'term': ch['term'], 'sep': 'blank', 'indent': -1, 'compact': False,
           'final_newline': True, 'repeat': ch['n']}


def stages(tier):
    return [Hyp('streams', _cases, 2500, 60000),
            Enum('huge-streams', _huge_chunks, _huge_cases, 'one stream of 900 (thorough: 4000) graphs with metadata (> 64 Ki characters), per line terminator')]
