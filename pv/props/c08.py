"""C08  Tokens tile the input and follow the documented lexical grammar."""
from hypothesis import strategies as st

from penman._lexer import PENMAN_RE, TRIPLE_RE, lex

from pv.gen import strings, texts, trees
from pv.gen.base import EXOTIC
from pv.gen import corpus
from pv.harness import Enum, Fuzz, Hyp
from pv.props.common import debug_logging, short
from pv.ref import lex as rlex

ID = 'C08'
TECHNIQUE = 'bounded-exhaustive enumeration of all strings over a 25-symbol delimiter/blank alphabet plus Hypothesis-generated lines; tiling invariants on the produced tokens and token-by-token differential against a hand-written reference scanner (both lexing patterns, str and list-of-lines input)'
RULE = ('cases: every string of length <= L over 25 symbols (( ) / : ~ " \\ # , . e E 1 a, the six ASCII blanks, NBSP, U+3000, '
        'U+2028, U+0085) and random longer lines/texts; each lexed with the graph pattern and the triple pattern, as one str '
        'and as a list of lines with their terminators. Non-trivial: >= 2 tokens or >= 1 character not covered by a token. '
        'Distinct by string.')
ASSUMPTIONS = ['a line ends at LF, CRLF or CR only; list-of-lines input carries at most one terminator, at the end of the line',
               'inside a string every character up to the end of the line is content (CR/VT/FF included): the statement only '
               'speaks of blanks outside strings and comments']

ALPHA = ['(', ')', '/', ':', '~', '"', '\\', '#', ',', '.', 'e', 'E', '1', 'a',
         '\u0663', ' ', '\t', '\r', '\n', '\x0b', '\x0c', '\xa0', '\u3000', '\u2028', '\x85']
ASCII_BLANK = ' \t\r\n\x0b\x0c'


def split_keepends(text):
    out, cur, i, n = [], [], 0, len(text)
    while i < n:
        c = text[i]
        cur.append(c)
        if c == '\r':
            if i + 1 < n and text[i + 1] == '\n':
                cur.append('\n'); i += 1
            out.append(''.join(cur)); cur = []
        elif c == '\n':
            out.append(''.join(cur)); cur = []
        i += 1
    if cur:
        out.append(''.join(cur))
    return out


def _tiling(toks, lines, label, f):
    """toks: penman tokens; lines: list of line texts (1-based numbering)"""
    prev = (0, 0)
    covered = [[False] * len(l) for l in lines]
    for t in toks:
        if not (1 <= t.lineno <= len(lines)):
            f.append(('token-lineno', '%s: %r' % (label, tuple(t)[:4]))); return
        line = lines[t.lineno - 1]
        if line[t.offset:t.offset + len(t.text)] != t.text or not t.text:
            f.append(('token-span', '%s: token %r does not sit at line %d col %d of %r' % (label, t.text, t.lineno, t.offset, line))); return
        if (t.lineno, t.offset) < prev:
            f.append(('token-order', '%s: %r starts before the end of its predecessor' % (label, tuple(t)[:4]))); return
        prev = (t.lineno, t.offset + len(t.text))
        for k in range(t.offset, t.offset + len(t.text)):
            covered[t.lineno - 1][k] = True
    for li, line in enumerate(lines):
        for k, c in enumerate(line):
            if not covered[li][k] and c not in ASCII_BLANK:
                f.append(('character-skipped', '%s: %r at line %d col %d is in no token' % (label, c, li + 1, k))); return


def check(case):
    if case.get('debug'):
        with debug_logging():           # penman -vvv: the lexer logs every token; the tokens must be the same
            return [(k + '@debug-logging', d) for k, d in check(dict(case, debug=False))]
    s = case['s']
    f = []
    lines = rlex.split_lines(s)
    klines = split_keepends(s)
    for mode, pat in (('graph', PENMAN_RE), ('triple', TRIPLE_RE)):
        ref = rlex.scan(s, mode)
        toks = list(lex(s, pattern=pat))
        _tiling(toks, lines, 'lex(%s, %s)' % (short(s, 80), mode), f)
        got = [(t.type, t.text, t.lineno, t.offset) for t in toks]
        # the same stream consumed through the look-ahead interface: peek, partial for-loop, next(), truth value
        it = lex(s, pattern=pat)
        mixed = []
        if it:
            it.peek()
            for t in it:
                mixed.append(t)
                break
            while it:
                it.peek()
                mixed.append(it.next())
        if [(t.type, t.text, t.lineno, t.offset) for t in mixed] != got:
            f.append(('token-iterator-modes:' + mode, '%s: list() gives %r, peek/for/next gives %r' % (short(s, 80), got[:6], [tuple(t)[:4] for t in mixed][:6])))
        # the pattern handed over as its source text (the documented Union[Pattern, str])
        got_src = [(t.type, t.text, t.lineno, t.offset) for t in lex(s, pattern=pat.pattern)]
        if got_src != got:
            f.append(('pattern-as-string:' + mode, '%s: compiled pattern gives %r, its source string gives %r' % (short(s, 80), got[:6], got_src[:6])))
        # two consecutive for-loops over one iterator: the second continues where the first stopped
        it = lex(s, pattern=pat)
        two = []
        for t in it:
            two.append(t)
            if len(two) == 2:
                break
        for t in it:
            two.append(t)
        if [(t.type, t.text, t.lineno, t.offset) for t in two] != got:
            f.append(('token-iterator-two-loops:' + mode, '%s: list() gives %r, two for-loops give %r' % (short(s, 80), got[:6], [tuple(t)[:4] for t in two][:6])))
        # a failed expect() in the middle: what is read afterwards is still a contiguous rest of the stream (with or without
        # the offending token; the statement does not say which), nothing is skipped or delivered twice
        if len(got) >= 3:
            from penman.exceptions import DecodeError as _DE
            it = lex(s, pattern=pat)
            it.next()
            try:
                it.expect('NO-SUCH-TOKEN-TYPE')
            except _DE:
                pass
            rest = []
            while it:
                rest.append(it.next())
            rest = [(t.type, t.text, t.lineno, t.offset) for t in rest]
            if rest != got[1:] and rest != got[2:]:
                f.append(('token-iterator-after-failed-expect:' + mode, '%s: all tokens %r, after next() and a failed expect() %r' % (short(s, 80), got[:6], rest[:6])))
        if got != ref:
            f.append(('token-stream:' + mode, '%s: %r, reference scanner %r' % (short(s, 80), got[:8], ref[:8])))
        toks2 = list(lex(klines, pattern=pat))
        got2 = [(t.type, t.text, t.lineno, t.offset) for t in toks2]
        ref2 = rlex.scan(klines, mode)
        if got2 != ref2:
            f.append(('token-stream-lines:' + mode, '%s as lines: %r, reference scanner %r' % (short(klines, 80), got2[:8], ref2[:8])))
        else:
            _tiling(toks2, klines, 'lex(%s, %s)' % (short(klines, 80), mode), f)
        if f:
            break
    return f


def nontrivial(case):
    s = case['s']
    toks = rlex.scan(s)
    if len(toks) >= 2:
        return True
    return sum(len(t[1]) for t in toks) < len(s)


def classes(case):
    s = case['s']
    toks = rlex.scan(s)
    out = sorted({'tok:' + t[0] for t in toks})
    if any(c in s for c in EXOTIC): out.append('exotic-blank')
    if len(rlex.split_lines(s)) > 1: out.append('multi-line')
    if len(s) > 12: out.append('long')
    if case.get('debug'): out.append('debug-logging')
    return out


@st.composite
def _random(draw):
    c = draw(st.integers(0, 3))
    if c == 0:
        s = draw(st.text(alphabet=st.sampled_from(ALPHA + list('b0-^') + ['\x1c', '\x1d', '\x1e', '\x1f', '\x00']), min_size=5, max_size=40))
    elif c == 1:
        j = draw(trees.any_trees(max_nodes=5))
        s = draw(texts.spaced(draw(texts.comment_lines()) + texts.tokens_of(j)))
    elif c == 2:
        j = draw(trees.any_trees(max_nodes=4))
        toks = draw(texts.mutated(texts.tokens_of(j)))
        s = draw(texts.spaced(toks, tight=2, loose=2))
    else:
        s = draw(st.text(max_size=30))
        s = s.replace('\ud800', '')
    if draw(st.integers(0, 7)) == 0:
        return {'s': s, 'debug': True}
    return {'s': s}


LONG_UNITS = ['\xa0# ::id ', ' \u3000# ::snt x ', 'a\x1cb # c\x1dd "e\x1ef" \x1f', '# ::snt ', '(a / alpha :ARG0 (b / beta) ', ':op1 "a long string constant ', 'x~e.1 y~2 ', '\u00e9\xa0 ']


def _long_chunks(tier):
    return [{'u': i, 'pows': [4096, 65536] if tier == 'quick' else [4096, 8192, 16384, 32768, 65536, 131072]} for i in range(len(LONG_UNITS))]


def _long_cases(ch):
    """the same long line at several line numbers of one input, and again (at other line numbers) in later inputs lexed by
    the same process: a token's line number and column are those of THIS occurrence"""
    u = LONG_UNITS[ch['u']]
    for n in (40, 71, 72, 73, 100, 128, 300, 1200):
        line = (u * (n // len(u) + 1))[:n].rstrip('\\')
        for s in (line, 'x\n' + line, line + '\n' + line, line + '\n\n' + line + '\n' + line, 'y z\n\n\n' + line + '\r\n' + line):
            yield {'s': s}
    if ch['u'] == 3:
        # a CRLF (and a lone CR, a lone LF) sitting exactly on a power-of-two character offset of a long input
        for p in ch['pows']:
            body = ('(a / b) # c\n' * (p // 12 + 1))[:p - 8] + 'x y ~1 '
            for term in ('\r\n', '\r', '\n'):
                yield {'s': body + 'z' + term + '(d / e)' + term + 'f "g"'}
                yield {'s': body + term + '(d / e)' + term + 'f'}
    if ch['u'] == 4:
        # literal prefixes that look like something else (URLs, drive letters, times, namespaces)
        for lit in ('http://a/b~1', 'https://a.b/c?d=e', 'file:///x', 'mailto:a@b', 'C:\\dir', '10:30', 'a::b', 'urn:x:y', '//', 'ftp://h:21/p'):
            for tpl in ('%s', '(a :r %s)', '(a / %s :s b)', ':r %s ', 'r(a, %s)', '# %s\n%s'):
                yield {'s': tpl.replace('%s', lit)}


def stages(tier):
    L = 4 if tier == 'quick' else 5
    return [
        Enum('exhaustive-strings',
             lambda tier: strings.prefix_chunks(ALPHA, L, 2),
             lambda ch: ({'s': s} for s in strings.strings_of(ch, ALPHA, L, 2)),
             'every string of length <= %d over %d symbols (%d)' % (L, len(ALPHA), strings.count(ALPHA, L))),
        Enum('exhaustive-strings-debug-logging',
             lambda tier: strings.prefix_chunks(ALPHA, L - 1, 1),
             lambda ch: ({'s': s, 'debug': True} for s in strings.strings_of(ch, ALPHA, L - 1, 1)),
             'every string of length <= %d over the same alphabet with the penman logger at DEBUG' % (L - 1)),
        Enum('repeated-long-lines', _long_chunks, _long_cases,
             'lines of 40..1200 characters (comments, graph text, strings, alignments, non-ASCII) repeated at several line numbers within one '
             'input and across inputs of the same process'),
        Hyp('random', _random, 6000, 500000),
        Fuzz('coverage-guided-bytes', 0, 1000000, decode=lambda data: {'s': data.decode('utf-8', 'ignore')}, seeds=corpus.test_strings(60),
             dictionary=corpus.DICTIONARY, max_len=80),
    ]
