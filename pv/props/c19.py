"""C19  Triple-conjunction notation round-trips."""
from hypothesis import strategies as st

import penman
from penman import layout
from penman.exceptions import DecodeError
from penman.tree import Tree

from pv.gen import trees
from pv.gen.base import strings as str_atoms, symbols
from pv.harness import Enum, Hyp
from pv.props.common import short
from pv.ref import interp
from pv.ref import lex as rlex

ID = 'C19'
TECHNIQUE = 'round-trip oracle parse_triples(format_triples(ts)) == ts and metamorphic oracle over re-spellings of the output under every documented spacing variant of "," and "^", chosen per occurrence; Hypothesis-generated triple lists'
RULE = ('cases: triple lists from decoded well-formed trees (triples with a missing target removed) and random lists: sources = symbols '
        'without comma, roles non-empty with or without colon, targets = symbols (incl. 1,000 "," ^x numbers) or quoted strings with '
        'blanks, commas, parentheses, ^ and escapes; indent in {True, False}; the output re-spelled with a per-occurrence choice of '
        '"a,b" "a, b" "a ,b" "a , b" and "x^y" "x ^y" "x ^ y" "x^ y". Non-trivial: >= 2 triples and >= 1 string or comma-bearing '
        'target. Distinct by case content.')
ASSUMPTIONS = ['lists are non-empty: a conjunction has at least one triple (the empty text is rejected, see C07)',
               'a source containing "," and an anonymous role are not expressible in the notation and are not generated',
               'targets are text (numbers by their written form); a missing target (None) has no spelling',
               'roles do not start with "#" (comment) ; a role starting with "^" is only re-spelled with a detached conjunction sign']


def _colon(r):
    return r if r.startswith(':') else ':' + r


COMMAS = [',', ', ', ' ,', ' , ']
CARETS = ['^', ' ^', ' ^ ', '^ ', ' ^\n', '\n^ ']


def respell(triples, choices):
    out = []
    ci = 0
    for k, (s, r, t) in enumerate(triples):
        comma = COMMAS[choices[ci % len(choices)] % 4]; ci += 1
        item = '%s(%s%s%s)' % (r.lstrip(':'), s, comma, t)
        if k:
            c = CARETS[choices[ci % len(choices)] % len(CARETS)]; ci += 1
            if r.lstrip(':').startswith('^') and not c.endswith((' ', '\n')):
                c = ' ^ '
            out.append(c)
        out.append(item)
    return ''.join(out)


def check(case):
    ts = [tuple(t) for t in case['triples']]
    if not ts:
        return []      # a conjunction has at least one triple (C07's grammar rejects the empty text)
    want = [(s, _colon(r), t) for s, r, t in ts]
    f = []
    codec = penman.PENMANCodec()
    for indent in (True, False):
        s = penman.format_triples(ts, indent=indent)
        if codec.format_triples(ts, indent=indent) != s:
            f.append(('codec-object-differs', short(s, 200)))
            return f
        try:
            got = penman.parse_triples(s)
        except DecodeError as e:
            f.append(('formatted-triples-rejected', '%s: %s at %r' % (short(s, 200), e.message, (e.lineno, e.offset))))
            return f
        if got == want and codec.parse_triples(s) != got:
            f.append(('codec-object-differs', short(s, 200)))
            return f
        if got != want:
            f.append(('triples-roundtrip', '%s -> %s, expected %s' % (short(s, 200), short(got, 200), short(want, 200))))
            return f
    if case.get('choices'):
        s = respell(want, case['choices'])
        try:
            got = penman.parse_triples(s)
        except DecodeError as e:
            f.append(('spacing-variant-rejected', '%s: %s at %r' % (short(s, 200), e.message, (e.lineno, e.offset))))
            return f
        if got != want:
            f.append(('spacing-variant', '%s -> %s, expected %s' % (short(s, 200), short(got, 200), short(want, 200))))
    return f


def nontrivial(case):
    ts = case['triples']
    return len(ts) >= 2 and any(t[2].startswith('"') or ',' in t[2] for t in ts)


def classes(case):
    ts = case['triples']
    out = ['n:%d' % min(len(ts), 6)]
    if any(t[2].startswith('"') for t in ts): out.append('string-target')
    if any(',' in t[2] and not t[2].startswith('"') for t in ts): out.append('comma-in-symbol-target')
    if any(t[2].startswith('"') and any(c in t[2] for c in ',()^ ') for t in ts): out.append('string-with-delimiters')
    if any(t[1].lstrip(':').startswith('^') for t in ts): out.append('caret-role')
    if case.get('choices'): out.append('respelled')
    if case.get('from_tree'): out.append('from-decoded-graph')
    return out


TARGETS = ['b', 'alpha', '1', '1.5', '-', '1,000', ',', '^x', 'x^y', '"q"', '"a b"', '"a, b"', '"(x)"', '"^"', '"a\\"b"', '""', 'a.b', 'c,', ',c',
           '"x ^ y"', '"r(a, b)"', '\u00e9', '-0.0']
ROLES = [':instance', 'instance', ':ARG0', 'ARG1', ':ARG0-of-of', 'mod-of-of', ':domain-of', ':r-of', ':op1', ':^x', 'a,b', ':x.y', ':-', 'mod',
         ':x{{y}}', ':{}', ':{0}', ':%s', ':\ufeffARG0', '\ufeffr', ':INSTANCE', 'Instance', ':\xa0r', ':r\u2028', ':\u0130']
SOURCES = ['a', 'b', 'x1', '_', '^a', '\u00e9', '1', '-']


def _ok_source(s):
    return ',' not in s and not s.startswith('#')


@st.composite
def _cases(draw):
    if draw(st.integers(0, 3)) == 0:
        j = draw(trees.wf_trees({'name': 'default'}, max_nodes=5, aligned=False))
        g = layout.interpret(Tree(interp.to_node(j)))
        ts = [[s, r, t] for s, r, t in g.triples if t is not None and r != ':' and _ok_source(s)]
        case = {'triples': ts, 'from_tree': True}
    else:
        ts = []
        for _ in range(draw(st.integers(1, 6))):
            c = draw(st.integers(0, 9))
            if c < 7:
                tgt = draw(st.sampled_from(TARGETS))
            elif c < 9:
                tgt = draw(str_atoms())
            else:
                tgt = draw(symbols())
            src = draw(st.sampled_from(SOURCES)) if c else draw(symbols().filter(_ok_source))
            r = draw(st.sampled_from(ROLES))
            ts.append([src, r, tgt])
        case = {'triples': ts}
    if draw(st.booleans()) and case['triples']:
        case['choices'] = draw(st.lists(st.integers(0, 11), min_size=1, max_size=8))
    return case


def _long_chunks(tier):
    return [{'n': n, 'v': v} for n in (190, 193, 257, 400, 1100) for v in range(4)]


def _long_cases(ch):
    n, v = ch['n'], ch['v']
    tg = ['b', '"s t"', '1,000', '"a,b"', 'c', '"(x)"', '-']
    ts = [['a%d' % (i % 7), [':ARG0', ':op1', 'instance', ':r-of'][i % 4], tg[(i * 3 + v) % len(tg)]] for i in range(n)]
    yield {'triples': ts, 'choices': [[0, 1, 2, 3, 4, 5][(v + j) % 6] for j in range(7)]}
    yield {'triples': ts, 'choices': [v + 2, 0]}


def stages(tier):
    return [Hyp('random', _cases, 6000, 200000),
            Enum('long-lists', _long_chunks, _long_cases, 'lists of 190 .. 1100 triples, each re-spelled under four fixed mixtures of the spacing variants')]
