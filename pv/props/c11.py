"""C11  Edge reification and dereification are mutually inverse."""
from hypothesis import strategies as st

import penman
from penman import layout, surface, transform
from penman.graph import Graph
from penman.tree import Tree

from pv.gen import models, trees
from pv.gen.base import pick
from pv.harness import Hyp
from pv.props.common import OPTS, fmt, noise_calls, short, tree_classes
from pv.ref import graphm, interp
from pv.ref.role import build_model, build_table, roles_for

ID = 'C11'
TECHNIQUE = 'round-trip oracle dereify_edges(reify_edges(g)) == g (triples, alignments, encoded text) plus invariants of the reified graph; Hypothesis-generated well-formed graphs over reifiable AMR / custom role inventories; targeted generator for the never-collapses clause'
RULE = ('cases: well-formed graphs (decoded from generated trees, and the same marker-free) over the AMR inventory or random tables, with '
        'reifiable roles on edges, attributes, inverted edges, re-entrancies, aligned roles/targets, variables _ and _2 already in use; only '
        'reification-unambiguous roles (computed from the table) and no dereifiable concept to begin with (stated precondition). Second '
        'generator: a reified-looking node that is the top / owns a third relation / is referenced elsewhere. Non-trivial: >= 1 triple '
        'is reified. Distinct by case content.')
ASSUMPTIONS = ['precondition computed from the table: a role r is used only if dereifying its own reification names r in both argument orders '
               '(for the AMR table this excludes exactly :superset, whose concept include-91 also spells :subset)',
               'alignment integers spelled canonically',
               'default model = no-op case (nothing reifiable)']


def unambiguous_roles(table):
    reifs, deifs = {}, {}
    for role, concept, s, t in table['reifications']:
        reifs.setdefault(role, []).append((concept, s, t))
        deifs.setdefault(concept, []).append((role, s, t))
    ok = []
    for role, lst in reifs.items():
        concept, sr, tr = lst[0]

        def look(a, b):
            for r2, s2, t2 in deifs[concept]:
                if (s2 == a and t2 == b) or (t2 == a and s2 == b):
                    return r2
            return None
        if look(sr, tr) == role and look(tr, sr) == role:
            ok.append(role)
    return ok, set(deifs)


def _aln(g):
    out = {}
    for fn in (surface.alignments, surface.role_alignments):
        out[fn.__name__] = {t: (a.prefix, tuple(a.indices)) for t, a in fn(g).items()}
    return out


def check_roundtrip(case):
    spec = case['model']
    node = interp.to_node(case['tree'])
    if interp.wellformed(node, spec) is not None:
        return []
    table = build_table(spec)
    ok_roles, deconcepts = unambiguous_roles(table)
    reifiable = {r[0] for r in table['reifications']}
    m = build_model(spec)
    noise_calls(m, node)
    # the graph carries metadata: "the identical encoded text" includes its comment lines
    g = layout.interpret(Tree(node, metadata={'id': 'c11', 'snt': 'x y'}), m)
    if case.get('strip'):
        g = Graph(g.triples, top=g.top, metadata=g.metadata)
        if case.get('implicit'):
            # hand-built, top not stated: it is the source of the first triple, here a relation of the top node
            first = [t for t in g.triples if t[0] == g.top and t[1] != ':instance'][:1]
            g = Graph(first + [t for t in g.triples if t not in first], metadata=g.metadata)
    # precondition
    gvars = {t_[0] for t_ in g.triples}
    for s, r, t in g.triples:
        if r == ':instance' and t in deconcepts:
            # a node with a dereifiable concept is fine as long as it is not collapsible: collapsible (conservatively) = exactly
            # two relations, their roles are the argument roles of some reification of the concept, and the source argument
            # is a node
            rels = [t_ for t_ in g.triples if t_[0] == s and t_[1] != ':instance']
            if len(rels) == 2:
                for role_, c_, sr_, tr_ in table['reifications']:
                    if c_ == t and {rels[0][1], rels[1][1]} == {sr_, tr_}:
                        src_ = [t_[2] for t_ in rels if t_[1] == sr_]
                        if sr_ == tr_ or (src_ and src_[0] in gvars):
                            return []
        if r in reifiable and r not in ok_roles:
            return []
    lab = '%s%s under %s' % (fmt(node), ' (markers stripped)' if case.get('strip') else '', spec.get('name'))
    f = []
    snap = graphm.snapshot(g)
    r = transform.reify_edges(g, m)
    if any(t[1] in reifiable for t in r.triples):
        f.append(('reifiable-role-left', '%s -> %s' % (lab, short(r.triples))))
    if r.top != g.top:
        f.append(('reify-top', '%s: top %r -> %r' % (lab, g.top, r.top)))
    old, new = g.variables(), r.variables()
    if not old <= new:
        f.append(('reify-lost-variable', '%s: %r' % (lab, old - new)))
    kept = [t for t in g.triples if t[1] not in reifiable]
    it = iter(r.triples)
    if not all(any(t == u for u in it) for t in kept):
        f.append(('reify-other-triples-kept-in-order', '%s -> %s' % (lab, short(r.triples))))
    nre = sum(1 for t in g.triples if t[1] in reifiable)
    if len(new - old) != nre or len(r.triples) != len(g.triples) + 2 * nre:
        f.append(('reify-fresh-variables', '%s: %d reifiable triples, new variables %r' % (lab, nre, sorted(new - old))))
    for v in new - old:
        if sum(1 for t in r.triples if t[0] == v and t[1] == ':instance') != 1:
            f.append(('reify-fresh-node-instance', '%s: %r' % (lab, v)))
    if dict(r.metadata) != dict(g.metadata):
        f.append(('reify-metadata', '%s: %r' % (lab, dict(r.metadata))))
    rsnap = graphm.snapshot(r)
    rtext = penman.encode(r, model=m, indent=None)
    d = transform.dereify_edges(r, m)
    if graphm.snapshot(r) != rsnap or penman.encode(r, model=m, indent=None) != rtext:
        f.append(('dereify-mutates-argument', lab))
    d2 = transform.dereify_edges(r, m)
    if graphm.snapshot(d2) != graphm.snapshot(d):
        f.append(('dereify-twice-differs', '%s: %s vs %s' % (lab, short(d.triples, 200), short(d2.triples, 200))))
    if d.triples != g.triples:
        f.append(('dereify-restores-triples', '%s -> %s -> %s' % (lab, short(r.triples, 200), short(d.triples, 200))))
    elif d.top != g.top:
        f.append(('dereify-top', lab))
    else:
        if _aln(d) != _aln(g):
            f.append(('dereify-restores-alignments', '%s: %r vs %r' % (lab, _aln(d), _aln(g))))
        for indent, compact in case.get('opts') or [[None, False]]:
            a = penman.encode(g, model=m, indent=indent, compact=compact)
            b = penman.encode(d, model=m, indent=indent, compact=compact)
            if a != b:
                f.append(('dereify-restores-text', '%s: %s vs %s' % (lab, short(b, 200), short(a, 200))))
                break
    if graphm.snapshot(g) != snap:
        f.append(('reify-mutates-argument', lab))
    return f


def check_protected(case):
    """A node that looks reified but is the top / has a third relation / is referenced elsewhere is never collapsed."""
    spec = case['model']
    m = build_model(spec)
    g = graphm.graph_from_json(case['g'])
    v = case['node']
    if case['why'] == 'model-says-no':
        # the model is a subclass that narrows the documented query is_concept_dereifiable(): this concept is an ordinary
        # predicate for it, so the node is an ordinary node
        from penman.model import Model
        t_ = build_table(spec)
        concept_ = [t[2] for t in g.triples if t[0] == v and t[1] == ':instance'][0]

        class Narrowed(Model):
            def is_concept_dereifiable(self, concept):
                return concept != concept_ and super().is_concept_dereifiable(concept)
        m = Narrowed(roles={r: {} for r in t_['roles']}, normalizations=t_['normalizations'], reifications=[tuple(r) for r in t_['reifications']])
    mine = [t for t in g.triples if t[0] == v]
    d = transform.dereify_edges(g, m)
    f = []
    if d.top != g.top:
        f.append(('protected-node-collapsed:top-moved', 'Graph(%s, top=%r): top became %r' % (short(g.triples, 240), g._top, d.top)))
    it = iter(d.triples)
    if not all(any(t == u for u in it) for t in mine):
        f.append(('protected-node-collapsed:' + case['why'], 'Graph(%s, top=%r): node %r lost %r' % (
            short(g.triples, 240), g.top, v, [t for t in mine if t not in d.triples])))
    return f


def check(case):
    if case['k'] == 'rt':
        return check_roundtrip(case)
    return check_protected(case)


def _nreified(case):
    spec = case['model']
    node = interp.to_node(case['tree'])
    reifiable = {r[0] for r in build_table(spec)['reifications']}
    rd = interp.interpret(node, spec)
    return sum(1 for t in rd.triples if t[1] in reifiable)


def nontrivial(case):
    if case['k'] != 'rt':
        return True
    node = interp.to_node(case['tree'])
    if interp.wellformed(node, case['model']) is not None:
        return False
    return _nreified(case) >= 1


def classes(case):
    out = ['kind:' + case['k'], 'model:' + case['model'].get('name', 'custom')]
    if case['k'] == 'rt':
        node = interp.to_node(case['tree'])
        why = interp.wellformed(node, case['model'])
        if why:
            return ['skipped:' + why]
        n = _nreified(case)
        out.append('reified:%d' % min(n, 4))
        out += tree_classes(node)
        if case.get('strip'): out.append('stripped')
        table = build_table(case['model'])
        ok_roles, deconcepts = unambiguous_roles(table)
        rd = interp.interpret(node, case['model'])
        if any(t[1] == ':instance' and t[2] in deconcepts for t in rd.triples): out.append('skipped:dereifiable-concept')
    else:
        out.append('protect:' + case['why'])
    return out


AMR_EXTRA = [':ARG0', ':ARG1', ':ARG2', ':op1', ':op2', ':foo', ':']


@st.composite
def _rt_cases(draw, large=False):
    c = draw(st.integers(0, 9))
    if c == 0:
        spec = {'name': 'default'}
    elif c <= 6:
        spec = {'name': draw(st.sampled_from(['amr', 'amr', 'mini']))}
    else:
        spec = draw(models.custom_tables())
        if spec.get('noop'):
            spec = dict(spec, noop=False)
    table = build_table(spec)
    ok_roles, _ = unambiguous_roles(table)
    pool = ok_roles + ok_roles + AMR_EXTRA[:draw(st.integers(1, len(AMR_EXTRA)))] + models.case_variants(table, 2)
    R = roles_for(spec)
    fwd = [r for r in dict.fromkeys(pool) if R.is_canonical_inversion(r) and not R.inverted(r)]
    inv = {}
    for r in fwd:
        w = R.invert(r)
        if R.inverted(w) and R.is_canonical_inversion(w):
            inv[r] = w
    j = draw(trees.wf_trees(spec, max_nodes=30 if large else 6, role_pool=(fwd, inv), emptyconcept=False, wide=8 if large else 3))
    if draw(st.integers(0, 5)) == 0:
        j = trees.add_decoy(draw, j, table)         # looks reified but has a third relation: not collapsible
    return {'k': 'rt', 'tree': j, 'model': spec, 'strip': draw(st.integers(0, 2)) == 0, 'implicit': draw(st.booleans()),
            'opts': [pick(draw, OPTS)]}


@st.composite
def _protected_cases(draw):
    spec = {'name': 'amr'}
    table = build_table(spec)
    role, concept, sr, tr = pick(draw, table['reifications'])
    why = draw(st.sampled_from(['top', 'top-implicit', 'third-relation', 'referenced', 'model-says-no']))
    x = '_' if draw(st.booleans()) else 'r'
    ts = [['a', ':instance', 'alpha'], ['b', ':instance', 'beta'], [x, ':instance', concept], [x, sr, 'a'], [x, tr, 'b']]
    top = 'a'
    if why in ('top', 'top-implicit'):
        top = x if why == 'top' else None       # implicit: the first triple's source is the top
        ts = [ts[2], ts[3], ts[4], ts[0], ts[1]]
    elif why == 'third-relation':
        # the third relation may repeat one of the two argument roles (:ARG2 country :ARG2 continent)
        third = [x, draw(st.sampled_from([':polarity', ':ARG3', ':mod', ':time', sr, tr, sr, tr])), draw(st.sampled_from(['-', 'b', 'a', '"s"', 'continent']))]
        if third in ts:
            third = [x, third[1], 'continent']
        ts.insert(draw(st.integers(3, len(ts))), third)
    elif why == 'model-says-no':
        pass            # an ordinary collapsible shape; only the model (a subclass narrowing is_concept_dereifiable) protects it
    else:
        # the reference may come before or after the node's own triples (a forward re-entrancy in the text)
        ts.insert(draw(st.integers(1, len(ts))), [draw(st.sampled_from(['a', 'b'])), draw(st.sampled_from([':ARG0', ':mod', ':topic'])), x])
    if draw(st.booleans()) and why not in ('top', 'top-implicit'):
        # written the usual way: hang it under a, decode to get markers
        pass
    return {'k': 'prot', 'g': {'triples': ts, 'top': top, 'epi': []}, 'node': x, 'why': why, 'model': spec}


def stages(tier):
    return [
        Hyp('roundtrip', _rt_cases, 4000, 150000),
        Hyp('roundtrip-large', lambda: _rt_cases(large=True), 200, 10000),
        Hyp('protected-nodes', _protected_cases, 600, 20000),
    ]
