"""C14  Layout diagnostics agree with the text the graph was decoded from."""
from hypothesis import strategies as st

import penman
from penman import layout
from penman.graph import Graph
from penman.tree import Tree

from pv.gen import models, trees
from pv.harness import Enum, Hyp
from pv.props.common import fmt, noise_calls, tree_classes, tree_stats
from pv.ref import interp
from pv.ref.role import build_model

ID = 'C14'
TECHNIQUE = 'differential against a reference tree interpreter that records, per triple, the writing node, the opened node and written-inverted; Hypothesis trees + bounded-exhaustive small trees'
RULE = ('cases: well-formed trees (as C02: deep nesting, concept-less nodes with edges, re-entrancies written inverted, '
        'several closes on one triple) x models, each also with its markers stripped; every small tree (bound as C02). '
        'Non-trivial: some triple carries a POP and is followed by further triples (a nested node closed before the end), '
        'or an inverted re-entrancy. Distinct by (tree, model, stripped).')
ASSUMPTIONS = ['layout facts come from the reference reading of the tree (pv/ref/interp.py), not from penman',
               'on marker-free graphs only "does not raise, right result types, no pushed variable" is asserted: '
               'the statement fixes no particular context for them']


VIAS = ['decode', 'loads', 'iterdecode', 'codec', 'load-name', 'load-path', 'load-fileobj', 'load-stringio', 'late-codec', 'interface-decode', 'interface-load']


def _decode_via(via, node, m):
    """The graph "decoded from a text": through layout.interpret on the tree, or through one of the public decoding
    entry points on the formatted text (all of them take the model)."""
    if not via:
        return layout.interpret(Tree(node), m)
    import io
    import os
    import pathlib
    import penman
    from pv.harness import tmpdir
    text = penman.format(Tree(node), indent=None)
    if via == 'decode':
        return penman.decode(text, model=m)
    if via == 'loads':
        return penman.loads(text, model=m)[0]
    if via == 'iterdecode':
        return next(iter(penman.iterdecode(text, model=m)))
    if via == 'codec':
        return penman.PENMANCodec(model=m).decode(text)
    if via == 'late-codec':
        c = penman.PENMANCodec()
        c.model = m
        return c.decode(text)
    if via in ('interface-decode', 'interface-load'):
        import importlib
        import warnings
        with warnings.catch_warnings():
            warnings.simplefilter('ignore')
            pi = importlib.import_module('penman.interface')
        if via == 'interface-decode':
            return pi.decode(text, model=m)
        p = os.path.join(tmpdir(), 'c14i.txt')
        with open(p, 'w', encoding='utf-8') as fh:
            fh.write(text)
        return pi.load(p, model=m, encoding='utf-8')[0]
    if via == 'load-stringio':
        return penman.load(io.StringIO(text), model=m)[0]
    p = os.path.join(tmpdir(), 'c14.txt')
    with open(p, 'w', encoding='utf-8') as fh:
        fh.write(text)
    if via == 'load-name':
        return penman.load(p, model=m, encoding='utf-8')[0]
    if via == 'load-path':
        return penman.load(pathlib.Path(p), model=m, encoding='utf-8')[0]
    with open(p, encoding='utf-8') as fh:
        return penman.load(fh, model=m)[0]


def check(case):
    spec = case['model']
    node = interp.to_node(case['tree'])
    if interp.wellformed(node, spec) is not None:
        return []
    m = build_model(spec)
    noise_calls(m, node)
    g = _decode_via(case.get('via'), node, m)
    rd = interp.interpret(node, spec)
    f = []
    if g.triples != rd.triples:
        # the diagnostics are about these triples; a decoded graph that differs from the documented reading (C04) makes them moot
        return [('decoded-triples-differ-from-text', '%s: %r, text says %r' % (fmt(node), g.triples[:8], rd.triples[:8]))]
    if case.get('strip'):
        h = Graph(g.triples, top=g.top)
        ctx = layout.node_contexts(h)
        # without Push markers no node context other than the top can be known
        if not (isinstance(ctx, list) and len(ctx) == len(h.triples) and all(c is None or c == h.top for c in ctx)):
            f.append(('markerless-contexts', '%s -> %r' % (fmt(node), ctx)))
        for tr in h.triples:
            if layout.get_pushed_variable(h, tr) is not None:
                f.append(('markerless-pushed', '%r' % (tr,)))
            if not isinstance(layout.appears_inverted(h, tr), bool):
                f.append(('markerless-inverted-type', '%r' % (tr,)))
        return f
    # documented-pure calls on the same graph first: the diagnostics must not depend on them
    layout.configure(g, model=m)
    layout.reconfigure(g, model=m, key=m.canonical_order)
    if case.get('pre') is not None:
        # ... including the graph transformations (they return new graphs), and a trip through pickle / deepcopy
        from penman import transform
        k = case['pre'] % 6
        try:
            if k == 0:
                transform.reify_attributes(g)
            elif k == 1:
                transform.dereify_edges(g, m)
            elif k == 2:
                transform.reify_edges(g, m)
            elif k == 3:
                transform.indicate_branches(g, m)
            elif k == 4:
                import pickle
                g = pickle.loads(pickle.dumps(g))
            else:
                import copy
                g = copy.deepcopy(g)
        except penman.exceptions.ModelError:
            pass
    ctx0 = layout.node_contexts(g)
    ctx0.reverse()          # the returned list is the caller's; what is done to it must not change later answers
    del ctx0[:1]
    ctx = layout.node_contexts(g)
    want = [x['ctx'] for x in rd.facts]
    if ctx != want:
        f.append(('node-contexts', '%s: contexts %r, text says %r' % (fmt(node), ctx, want)))
    for tr, fact in zip(rd.triples, rd.facts):
        pv = layout.get_pushed_variable(g, tr)
        if pv != fact['pushed']:
            f.append(('pushed-variable', '%s: %r pushes %r, text opens %r' % (fmt(node), tr, pv, fact['pushed'])))
            break
    for tr, fact in zip(rd.triples, rd.facts):
        if tr[0] == tr[2]:
            continue
        ai = layout.appears_inverted(g, tr)
        if ai is not fact['inverted'] and ai != fact['inverted']:
            f.append(('appears-inverted', '%s: %r reported %r, text wrote it inverted=%r' % (fmt(node), tr, ai, fact['inverted'])))
            break
    return f


def _closes_early(node):
    """a nested node that is not the last thing in its parent's branch list, or an inverted re-entrancy"""
    def walk(nd):
        br = nd[1]
        for i, (r, x) in enumerate(br):
            if not interp.is_atom(x):
                if i < len(br) - 1 or walk(x):
                    return True
        return False
    return walk(node)


def nontrivial(case):
    node = interp.to_node(case['tree'])
    if interp.wellformed(node, case['model']) is not None:
        return False
    s = tree_stats(node)
    return _closes_early(node) or (s['inverted'] and s['reent'])


def classes(case):
    node = interp.to_node(case['tree'])
    why = interp.wellformed(node, case['model'])
    if why is not None:
        return ['skipped:' + why]
    out = ['model:' + case['model'].get('name', 'custom'), 'stripped' if case.get('strip') else 'decoded'] + tree_classes(node)
    out.append('via:' + (case.get('via') or 'interpret'))
    if case.get('pre') is not None: out.append('before:' + ['reify_attributes', 'dereify_edges', 'reify_edges', 'indicate_branches', 'pickle', 'deepcopy'][case['pre'] % 6])
    if _closes_early(node):
        out.append('closes-early')
    return out


@st.composite
def _cases(draw, deep=False, large=False):
    spec = draw(models.model_specs(open_patterns=True, hand_noop=True))
    j = draw(trees.wf_trees(spec, max_nodes=40 if large else (14 if deep else 8), deep=deep, aligned=draw(st.booleans()), wide=14 if large else 3))
    case = {'tree': j, 'model': spec, 'strip': draw(st.integers(0, 4)) == 0}
    if draw(st.booleans()):
        case['pre'] = draw(st.integers(0, 5))
    if draw(st.integers(0, 2)) == 0:
        case['via'] = draw(st.sampled_from(VIAS))
    return case


NCHUNK = 32


def _small_chunks(tier):
    return [{'i': i, 'n': NCHUNK, 'B': 3 if tier == 'quick' else 4} for i in range(NCHUNK)]


def _small_cases(ch):
    for idx, (j, n) in enumerate(trees.small_trees(ch['B'])):
        if idx % ch['n'] != ch['i']:
            continue
        yield {'tree': j, 'model': {'name': 'default'}}
        yield {'tree': j, 'model': {'name': 'default'}, 'strip': True}


def _deep_chunks(tier):
    return [{'d': d, 'v': v} for d in (60, 101, 130, 199) for v in range(4)] + [{'huge': n, 'shape': sh} for n in (90, 300) for sh in ('star', 'comb', 'binary')]


def _deep_cases(ch):
    if 'huge' in ch:
        if ch['shape'] == 'comb' and ch['huge'] > 300:
            return
        j = trees.huge_tree(ch['huge'], ch['shape'])
    else:
        j = trees.deep_chain(ch['d'], ch['v'])
    yield {'tree': j, 'model': {'name': 'default'}}


def stages(tier):
    return [
        Enum('deep-and-huge', _deep_chunks, _deep_cases, 'chains nested 60 / 101 / 130 / 199 levels with re-entrancies to ancestors after the nested branch (4 variants); stars, combs and binary trees of about 90 and 300 nodes'),
        Enum('small-trees', _small_chunks, _small_cases,
             'every tree with <= 3 (quick) / 4 (thorough) non-concept branches over vars {a,b,c}, roles {:r,:r-of,:s}, atom k, '
             'concept in {absent,x}; default model; decoded and marker-stripped'),
        Hyp('random', _cases, 5000, 200000),
        Hyp('random-deep', lambda: _cases(deep=True), 1000, 50000),
        Hyp('random-large', lambda: _cases(large=True), 300, 15000),
    ]
