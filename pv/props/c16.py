"""C16  Model checking is sound and complete, and --check reports it in the exit status."""
import json
import os

from hypothesis import strategies as st

import penman
from penman import layout
from penman.graph import Graph
from penman.tree import Tree

from pv.gen import graphs, models, trees
from pv.gen.base import pick
from pv.harness import Enum, Hyp, tmpdir
from pv.props.common import fmt, short
from pv.ref import cli, graphm, interp
from pv.ref.role import build_model, build_table, roles_for

ID = 'C16'
TECHNIQUE = 'differential against a reference checker (role membership by anchored per-pattern match, undirected reachability over edges) on Hypothesis-generated arbitrary triple lists; in-process runs of the command line tool on generated multi-file inputs with a 1-in-50 subprocess cross-check, oracle = exit status and error metadata predicted by the reference'
RULE = ('cases: (lib) arbitrary triple lists (duplicates, foreign tops, disconnected parts, variable-spelled concepts, roles valid / invalid / '
        'singly / doubly inverted) x models {default, amr, mini, random tables}; graphs decoded from arbitrary trees with a non-empty top '
        '(only role errors allowed); (tool) 1..3 input sources (stdin or files) each with 0..3 graphs, compliant and non-compliant mixed in '
        'every order, --amr / --model FILE / default. Non-trivial: (lib) the reference reports >= 1 error; (tool) >= 2 sources or a mix of '
        'failing and passing graphs. Distinct by case content.')
ASSUMPTIONS = ['sources of triples are strings: a text whose empty node "()" sits under an inverted role decodes to a triple with source None and is skipped',
               'the clause "a decoded graph only receives role errors" is asserted for texts that do not spell the concept relation as an explicit :instance (or :instance-of) role '
               '(a nested node under ":instance" hangs off its parent by a concept link only: the decoded graph is disconnected and encode() refuses it as well)',
               'reference: a role is valid iff some role pattern (or the top/concept role) matches it completely, directly or after removing one '
               '"-of"; unreachable = source not weakly connected to the top through edges (non-instance triples whose target is a source)',
               'messages are compared per triple as sets (multiplicity for duplicate triples is not asserted)',
               'tool output is read back with penman.loads (decided by C07/C09) to find each graph\'s metadata block',
               'constants in tool inputs contain no "::" (it would start a new metadata key inside the error line)']


def ref_errors(triples, top, spec):
    """-> (dict triple -> set(messages), set(general messages))"""
    R = roles_for(spec)
    per, gen = {}, set()
    if not triples:
        return per, {'graph is empty'}
    srcs = {t[0] for t in triples}
    for t in triples:
        ok = R.has_role(t[1]) or (spec.get('lenient_roles') and R.has_role(t[1].lower()))
        if not ok:
            per.setdefault(t, set()).add('invalid role')
    if not top:
        gen.add('top is not set')
    elif top not in srcs:
        gen.add('top is not a variable in the graph')
    else:
        reach = graphm.weakly_connected_from(triples, top, srcs)
        for t in triples:
            if t[0] not in reach:
                per.setdefault(t, set()).add('unreachable')
    return per, gen


def check_lib(case):
    spec = case['model']
    m = build_model(spec)
    if case['k'] == 'lib':
        g = Graph(graphm.ttriples(case['triples']), top=case['top'])
        lab = 'Graph(%s, top=%r) under %s' % (short(case['triples'], 240), case['top'], spec.get('name'))
    else:
        node = interp.to_node(case['tree'])
        g = layout.interpret(Tree(node), m)
        lab = '%s under %s' % (fmt(node), spec.get('name'))
        if any(t[0] is None for t in g.triples):
            return []          # "()" under an inverted role: the source of the triple is None, which is not a Variable (str)
    errs = m.errors(g)
    per, gen = ref_errors(list(g.triples), g.top, spec)
    f = []
    got_gen = set(errs.get(None, []))
    if got_gen != gen:
        f.append(('general-messages', '%s: %r, reference %r' % (lab, sorted(got_gen), sorted(gen))))
    for msg in ('invalid role', 'unreachable'):
        got = {t for t, ms in errs.items() if t is not None and msg in ms}
        want = {t for t, ms in per.items() if msg in ms}
        if got != want:
            f.append((msg.replace(' ', '-'), '%s: reported for %r, reference %r' % (lab, sorted(got, key=repr)[:5], sorted(want, key=repr)[:5])))
    for t, ms in errs.items():
        for x in ms:
            if x not in ('invalid role', 'unreachable', 'graph is empty', 'top is not set', 'top is not a variable in the graph'):
                f.append(('unknown-message', '%s: %r' % (lab, x)))
        if not ms:
            f.append(('empty-entry', '%s: %r' % (lab, t)))
    def _explicit_instance(nd):
        return any(r.split('~')[0] in (':instance', ':instance-of') or (not interp.is_atom(x) and _explicit_instance(x)) for r, x in nd[1])
    if case['k'] == 'decoded' and node[0] is not None and not _explicit_instance(node):
        bad = {x for ms in errs.values() for x in ms} - {'invalid role'}
        if bad:
            f.append(('decoded-graph-non-role-error', '%s: %r' % (lab, sorted(bad))))
    return f


def _model_args(case, d):
    name = case['model'].get('name')
    if name == 'amr':
        return ['--amr']
    if name == 'default':
        return []
    if name == 'noop':
        return ['--noop']
    t = build_table(case['model'])
    p = os.path.join(d, 'model.json')
    with open(p, 'w', encoding='utf-8') as fh:
        json.dump({'roles': {r: {} for r in t['roles']}, 'normalizations': t['normalizations'],
                   'reifications': t['reifications']}, fh)
    return ['--model', p]


def check_tool(case):
    spec = case['model']
    m = build_model(spec)
    d = tmpdir()
    texts, expected = [], []
    for src in case['sources']:
        parts = []
        for j in src:
            node = interp.to_node(j)
            parts.append(fmt(node, indent=None, meta=case.get('premeta') or None))
            g = layout.interpret(Tree(node), m)
            expected.append(ref_errors(list(g.triples), g.top, spec))
        texts.append('\n\n'.join(parts) + '\n')
    argv = _model_args(case, d) + ['--check', '--encoding', 'utf-8'] + list(case.get('extra', []))
    stdin = ''
    if case['stdin']:
        stdin = texts[0]
        texts = texts[:1]
        expected = expected[:len(case['sources'][0])]
    else:
        argv += cli.write_inputs(d, texts)
    code, out, err = cli.run_inprocess(argv, stdin)
    f = []
    lab = 'penman %s <- %s' % (' '.join(a if not a.startswith(d) else os.path.basename(a) for a in argv), short(texts, 300))
    any_err = any(per or gen for per, gen in expected)
    if (code != 0) != any_err:
        f.append(('exit-status', '%s: exit %r, reference says %s' % (lab, code, 'some graph has an error' if any_err else 'all graphs comply')))
    if '--triples' in argv or '--reify-attributes' in argv:
        return f          # output is not the input graph in PENMAN notation: only the exit status is judged
    try:
        outs = penman.loads(out, model=m)
    except Exception as e:
        return f + [('tool-output-unreadable', '%s: %r: %s' % (lab, e, short(out, 300)))]
    if len(outs) != len(expected):
        f.append(('tool-graph-count', '%s: %d in, %d out' % (lab, len(expected), len(outs))))
        return f
    for k, (g, (per, gen)) in enumerate(zip(outs, expected)):
        vals = [v for key, v in g.metadata.items() if key.startswith('error-')]
        for t in per:
            ctx = '(%s) ' % ' '.join(map(str, t))
            if not any(v.startswith(ctx) and v[len(ctx):] in per[t] for v in vals):
                f.append(('error-metadata-missing', '%s: graph %d lacks an error line for %r; has %r' % (lab, k, t, vals)))
                break
        stale = [v for k_, v in (case.get('premeta') or {}).items() if k_.startswith('error-')]
        if not per and not gen and [v for v in vals if v not in stale]:
            f.append(('error-metadata-spurious', '%s: compliant graph %d has %r' % (lab, k, vals)))
    if case.get('subprocess'):
        sub = cli.run_subprocess(argv, stdin)
        c2, o2, e2 = sub if sub is not None else (None, None, None)
        if sub is not None and (c2, o2) != (code, out):
            f.append(('harness:inprocess-vs-subprocess', '%s: in-process (%r, %s) subprocess (%r, %s)' % (lab, code, short(out, 200), c2, short(o2, 200))))
    return f


def check(case):
    if case['k'] == 'tool':
        return check_tool(case)
    return check_lib(case)


def nontrivial(case):
    if case['k'] == 'tool':
        flat = [j for src in case['sources'] for j in src]
        return len(case['sources']) >= 2 or len(flat) >= 2
    if case['k'] == 'lib':
        g = Graph(graphm.ttriples(case['triples']), top=case['top'])
        per, gen = ref_errors(list(g.triples), g.top, case['model'])
        return bool(per or gen)
    return True


def classes(case):
    out = ['kind:' + case['k'], 'model:' + case['model'].get('name', 'custom')]
    if case['k'] == 'lib':
        g = Graph(graphm.ttriples(case['triples']), top=case['top'])
        per, gen = ref_errors(list(g.triples), g.top, case['model'])
        for ms in per.values():
            out += ['msg:' + x for x in ms]
        out += ['msg:' + x for x in gen]
        if not per and not gen: out.append('compliant')
    elif case['k'] == 'tool':
        out.append('sources:%d' % len(case['sources']))
        out.append('stdin' if case['stdin'] else 'files')
        m = build_model(case['model'])
        flags = []
        for src in case['sources']:
            for j in src:
                g = layout.interpret(Tree(interp.to_node(j)), m)
                per, gen = ref_errors(list(g.triples), g.top, case['model'])
                flags.append(bool(per or gen))
        if flags and any(flags) and not all(flags): out.append('mixed-pass-fail')
        if flags and flags[-1] is False and any(flags): out.append('failing-then-passing-last')
        if case.get('subprocess'): out.append('subprocess-cross-check')
    return sorted(set(out))


@st.composite
def _lib_cases(draw):
    spec = draw(st.one_of(models.model_specs(noop=False), models.custom_tables(concept_roles=True, foreign_reifications=True)))
    t = build_table(spec)
    lits = [r for r in t['roles'] if '[' not in r and '(' not in r][:8] + [':op1', ':op12', ':ARG0', ':ARG9', ':snt2'] + sorted(t['normalizations'])[:3] + [t['concept_role']] + [r[0] for r in t['reifications']][-2:]
    # undefined stems of roles that end in -of by definition (:consist of :consist-of), asked for AFTER the defined role and before it
    lits += [r[:-3] for r in t['roles'] if r.endswith('-of') and '[' not in r and '(' not in r][:3] + [r for r in t['roles'] if r.endswith('-of') and '[' not in r and '(' not in r][:3]
    vs = ['a', 'b', 'c', 'd']
    roles = [':instance', ':instance'] + lits + [r + '-of' for r in lits[:6]] + [r + '-of-of' for r in lits[:3]] + [':foo', ':', ':TOP', ':foo-of', 'ARG0']
    tg = vs + ['x', 'a', None, 1, '"s"']
    out = []
    for _ in range(draw(st.integers(0, 9))):
        if out and draw(st.integers(0, 7)) == 0:
            out.append(list(pick(draw, out)))
        else:
            out.append([pick(draw, vs), pick(draw, roles), pick(draw, tg)])
    if draw(st.booleans()):
        g = draw(graphs.wf_graphs(spec, max_vars=4))
        out = g['triples'] + out[:draw(st.integers(0, 2))]
    if draw(st.integers(0, 7)) == 0 and spec.get('name') in ('amr', 'mini'):
        spec = dict(spec, lenient_roles=True)
        out = [[t[0], t[1].upper() if isinstance(t[1], str) and draw(st.booleans()) else t[1], t[2]] for t in out]
    return {'k': 'lib', 'triples': out, 'top': pick(draw, [None, None] + vs + ['z']), 'model': spec}


@st.composite
def _decoded_cases(draw):
    spec = draw(models.model_specs())
    return {'k': 'decoded', 'tree': draw(trees.any_trees(max_nodes=7, unicode=False)), 'model': spec}


VALID_AMR = ([':ARG0', ':ARG1', ':mod', ':op1', ':op2', ':polarity', ':quant', ':time', ':name', ':consist-of', ':poss', ':domain'], )
TOOL_CONSTS = ['-', '5', '"str"', '"a b(c)"', 'sym', '+', 'imperative', '0', '"x : y"']


@st.composite
def _tool_cases(draw):
    spec = draw(st.sampled_from([{'name': 'amr'}, {'name': 'amr'}, {'name': 'default'}, {'name': 'mini'}]))
    R = roles_for(spec)
    nsrc = draw(st.sampled_from([1, 1, 2, 2, 3]))
    stdin = nsrc == 1 and draw(st.booleans())
    sources = []
    for _ in range(nsrc):
        gs = []
        for _ in range(draw(st.sampled_from([0, 1, 1, 2, 3]))):
            good = draw(st.booleans())
            if good:
                fwd, inv = trees.role_pool_for(spec)
                fwd = [r for r in fwd if R.has_role(r)]
                inv = {r: w for r, w in inv.items() if r in fwd}
                if not fwd:
                    gs.append(draw(trees.wf_trees(spec, max_nodes=1, attrs=False, reent=False, missing=False, aligned=False)))
                    continue
                gs.append(draw(trees.wf_trees(spec, max_nodes=4, role_pool=(fwd, inv), consts=TOOL_CONSTS, aligned=False)))
            else:
                gs.append(draw(trees.wf_trees(spec, max_nodes=4, consts=TOOL_CONSTS, aligned=False)))
        sources.append(gs)
    return {'k': 'tool', 'sources': sources, 'stdin': stdin, 'model': spec,
            'extra': draw(st.sampled_from([[], [], ['--indent', 'no'], ['--compact'], ['--canonicalize-roles'], ['--triples'], ['--reify-attributes'],
                                           ['--reconfigure', 'canonical'], ['--rearrange', 'alphanumeric'], ['--reconfigure', 'original', '--compact']])),
            'subprocess': draw(st.integers(0, 49)) == 0,
            'premeta': draw(st.sampled_from([None, None, None, {'error-1': 'stale remark'}, {'id': '3', 'error-2': '(x :y z) invalid role'}]))}


def _chain_chunks(tier):
    return [{'n': n, 'shape': sh} for n in ((300, 1200) if tier == 'quick' else (300, 1200, 3000, 10000)) for sh in ('chain', 'reverse-chain', 'star', 'two-chains')]


def _chain_cases(ch):
    n, sh = ch['n'], ch['shape']
    vs = ['n%d' % i for i in range(n)]
    ts = [[v, ':instance', 'c'] for v in vs]
    if sh == 'chain':
        ts += [[vs[i], ':ARG0', vs[i + 1]] for i in range(n - 1)]
    elif sh == 'reverse-chain':
        ts += [[vs[i + 1], ':ARG0', vs[i]] for i in range(n - 1)]
    elif sh == 'star':
        ts += [[vs[0], ':op%d' % i, vs[i]] for i in range(1, n)]
    else:
        h = n // 2
        ts += [[vs[i], ':ARG0', vs[i + 1]] for i in range(h - 1)] + [[vs[i], ':ARG1', vs[i + 1]] for i in range(h, n - 1)]
    yield {'k': 'lib', 'triples': ts, 'top': vs[0], 'model': {'name': 'amr'}}
    yield {'k': 'lib', 'triples': list(reversed(ts)), 'top': vs[0], 'model': {'name': 'default'}}


def _many_chunks(tier):
    return [{'n': n, 'split': sp} for n in ((256,) if tier == 'quick' else (255, 256, 257, 512, 1024)) for sp in (1, 2)]


def _many_cases(ch):
    # exit statuses are bytes: a count of offending graphs that is a multiple of 256 must still give a non-zero status
    bad = ['a', [['/', 'alpha'], [':foo', 'x']]]
    good = ['b', [['/', 'beta'], [':ARG0', 'y']]]
    n = ch['n']
    if ch['split'] == 1:
        srcs = [[bad] * n]
    else:
        srcs = [[bad] * (n // 2) + [good], [good] + [bad] * (n - n // 2)]
    yield {'k': 'tool', 'sources': srcs, 'stdin': False, 'model': {'name': 'amr'}, 'extra': ['--indent', 'no'], 'subprocess': ch['split'] == 1}
    if ch['split'] == 1:
        # ... and ONE graph with exactly that many offending triples
        many = ['a', [['/', 'alpha']] + [[':foo%d' % i, 'x'] for i in range(n)]]
        yield {'k': 'tool', 'sources': [[many]], 'stdin': True, 'model': {'name': 'amr'}, 'extra': [], 'subprocess': False}
        yield {'k': 'tool', 'sources': [[good, many, good]], 'stdin': False, 'model': {'name': 'amr'}, 'extra': [], 'subprocess': False}


def stages(tier):
    return [
        Enum('many-bad-graphs', _many_chunks, _many_cases, '256 (thorough: 255, 256, 257, 512, 1024) non-compliant graphs in one invocation, in one file and split over two'),
        Enum('long-chains', _chain_chunks, _chain_cases, 'chains, reversed chains, stars and two disconnected chains of 300 / 1200 (thorough: up to 10000) nodes built through the Graph API'),
        Hyp('library-lists', _lib_cases, 5000, 300000),
        Hyp('decoded-graphs', _decoded_cases, 1500, 60000),
        Hyp('tool', _tool_cases, 1500, 40000),
    ]
