"""Tree generators.  JSON tree = [var, [[role, target], ...]], target = atom text | None | JSON tree."""
from hypothesis import strategies as st

from pv.gen.base import (ROLE_POOL, VARS, alignments, chance, fy, pick, strings, symbols)
from pv.ref.role import roles_for

CONCEPTS = ['\u0130stanbul', 'None', 'e\u0301t\u00e9', '\u212bngstr\u00f6m', 'C#', '1975', 'alpha', 'beta', 'b', 'i', '"a string"', '1', 'x-01', '"a~b"', 'c', 'want-01', '"(x / y)"', 'a', '_', '0',
            '\u00e9t\u00e9', '42nd', '---', '"\\"q\\""', '"#"', 'k']
CONSTS = ['None', 'null', 'C#', 'issue#12', '"he said \\"~5 km\\" twice"', 'e\u0301', '1e21', '1.50', '-0', '1E5', '00', 'n\ufeffo', '\ufeffKim', '-', '_', '_2', '"C:\\dir"', '"it\\\'s \\d+"', '5', '12345678901234567890', '"' + 'long string ' * 12 + '"', 'sym' * 20, '1.5', '"str"', '"a b(c)"', 'sym', '+', '"~1"', 'imperative', '0', '0.0', '"x : y"', '"a/b"',
          '"# c"', 'http', "d'", '1,000', '^q', '"\\\\"', '-1', '1e3', 'mod', 'u\u2028w', '"t\u0085u"']
AMR_ROLES = [':Consist', ':PREP-out', ':MOD', ':Location', ':TOP', ':prep-on', ':prep-out-of', ':ARG0', ':ARG1', ':ARG2', ':mod', ':domain', ':op1', ':op2', ':op10', ':polarity', ':quant', ':time',
             ':location', ':part', ':name', ':consist-of', ':prep-on-behalf-of', ':poss', ':wiki', ':subset',
             ':accompanier', ':beneficiary', ':age', ':foo', ':', ':snt2', ':value', ':li', ':cause']
MINI_ROLES = [':ARG0', ':ARG1', ':accompanier', ':domain', ':consist-of', ':mod', ':op1', ':op12', ':foo', ':']


def _assert_atoms(pool):
    from pv.ref import lex
    for a in pool:
        toks = lex.scan(a)
        assert len(toks) == 1 and toks[0][0] in ('SYMBOL', 'STRING') and toks[0][1] == a, (a, toks)


_assert_atoms(CONCEPTS)
_assert_atoms(CONSTS)
for _r in AMR_ROLES + MINI_ROLES:
    from pv.ref import lex as _lex
    assert [t[0] for t in _lex.scan(_r)] == ['ROLE'], _r


def role_pool_for(spec, extra=()):
    name = spec.get('name', 'custom')
    if name == 'amr':
        cand = AMR_ROLES
    elif name == 'mini':
        cand = MINI_ROLES
    elif name == 'custom':
        cand = spec.get('pool') or ROLE_POOL
    else:
        cand = ROLE_POOL
    R = roles_for(spec)
    fwd = [r for r in list(cand) + list(extra) if R.is_canonical_inversion(r) and not R.inverted(r)]
    inv = {}
    for r in fwd:
        w = R.invert(r)
        if R.inverted(w) and R.is_canonical_inversion(w):
            inv[r] = w
    return fwd, inv


@st.composite
def wf_trees(draw, spec, max_nodes=8, aligned=True, inverted=True, noconcept=True, emptyconcept=True,
             missing=True, attrs=True, reent=True, deep=False, role_pool=None, concepts=None, consts=None,
             extra_roles=(), wide=3):
    """Well-formed tree by construction: every variable heads one node, denoted triples pairwise distinct,
    edge roles in canonical inversion form, no inverted self-loop, no empty node."""
    R = roles_for(spec)
    fwd, inv = role_pool if role_pool is not None else role_pool_for(spec, extra_roles)
    concepts = concepts or CONCEPTS
    consts = consts or CONSTS
    if deep:
        n = draw(st.integers(3, max_nodes))
    else:
        n = draw(st.integers(1, max_nodes))
    vs = fy(draw, VARS)[:n] if n <= len(VARS) else fy(draw, VARS + ['w%d' % i for i in range(n - len(VARS))])
    vset = set(vs)
    parents = [None] + [(k - 1 if deep and chance(draw, 5, 6) else draw(st.integers(0, k - 1))) for k in range(1, n)]
    children = {k: [] for k in range(n)}
    for k in range(1, n):
        children[parents[k]].append(k)
    seen = set()

    def aln():
        if aligned and chance(draw, 1, 5):
            return draw(alignments())
        return ''

    def claim(src, role, tgt, is_edge):
        """normalised triple; returns False if it already exists"""
        tr = (src, role, tgt)
        if is_edge and R.inverted(role) and not R.noop:
            tr = (tgt, role[:-3], src)
        if tr in seen:
            return False
        seen.add(tr)
        return True

    def edge_role(src, tgt):
        order = fy(draw, fwd)
        for r in order:
            w = r
            if inverted and r in inv and src != tgt and chance(draw, 1, 3):
                w = inv[r]
            if claim(src, w, tgt, True):
                return w
            if w != r and claim(src, r, tgt, True):
                return r
        return None

    def build(k):
        var = vs[k]
        branches = []
        c = draw(st.integers(0, 9))
        if not noconcept or c > 2:
            branches.append(['/', pick(draw, concepts) + aln()])
        elif c == 2 and emptyconcept:
            branches.append(['/', None])
        items = [('child', ch) for ch in children[k]]
        for _ in range(draw(st.integers(0, wide))):
            items.append((pick(draw, ['attr', 'reent', 'attr', 'miss']), None))
        items = fy(draw, items)
        for kind, ch in items:
            if kind == 'child':
                r = edge_role(var, vs[ch])
                if r is None:   # cannot happen with distinct child variables, kept for safety
                    continue
                ra = r + aln()
                branches.append([ra, build(ch)])
            elif kind == 'attr' and attrs:
                r = pick(draw, fwd)
                if inverted and r in inv and chance(draw, 1, 8):
                    r = inv[r]          # inverted attribute: stays as written
                cst = pick(draw, consts)
                if chance(draw, 1, 25):
                    cst = pick(draw, vs) + pick(draw, ['\xa0', '\u2007', '\u200b'])     # a constant that only differs from a variable by a non-ASCII blank
                if cst in vset:
                    continue
                if claim(var, r, cst, False):
                    a1 = aln()
                    branches.append([r + a1, cst + (a1 if a1 and chance(draw, 1, 3) else aln())])
            elif kind == 'reent' and reent:
                tgt = pick(draw, vs)
                r = edge_role(var, tgt)
                if r is not None:
                    a1 = aln()
                    branches.append([r + a1, tgt + (a1 if a1 and chance(draw, 1, 3) else aln())])
            elif kind == 'miss' and missing:
                r = pick(draw, fwd)
                if claim(var, r, None, False):
                    branches.append([r + aln(), None])
        return [var, branches]

    return build(0)


def _split_atom(x):
    from pv.ref.interp import split_atom
    return split_atom(x)


def reify_in_tree(draw, j, table, prob=(1, 2), tail=False, twins=False):
    """Rewrites some branches whose role has a reification in *table* as properly reified nodes, in the text:
    (x :mod y)  ->  (x :ARG1-of (_N / have-mod-91 :ARG2 y)).  Produces the collapsible nodes dereify_edges looks for
    (concept dereifiable, exactly the two argument relations, referenced nowhere else).  Mutates and returns j."""
    reifs = {}
    for role, concept, sr, tr in table['reifications']:
        reifs.setdefault(role, (concept, sr, tr))
    used = set()

    def collect(nd):
        used.add(nd[0])
        for r, x in nd[1]:
            if isinstance(x, list):
                collect(x)
    collect(j)
    counter = [0]

    def fresh():
        while True:
            counter[0] += 1
            v = '_' if counter[0] == 1 else '_%d' % counter[0]
            if v not in used:
                used.add(v)
                return v

    def walk(nd):
        for i, (r, x) in enumerate(nd[1]):
            if isinstance(x, list):
                walk(x)
            base, tilde, aln = r.partition('~')
            if base in reifs and x is not None and chance(draw, *prob):
                concept, sr, tr = reifs[base]
                v = fresh()
                if tilde and chance(draw, 1, 3):
                    # the alignment sits on both argument roles instead of on the concept
                    nd[1][i] = [sr + '-of' + tilde + aln, [v, [['/', concept], [tr + '~e.9', x]]]]
                else:
                    nd[1][i] = [sr + '-of', [v, [['/', concept + tilde + aln], [tr, x]]]]
                if twins and isinstance(x, str) and chance(draw, 1, 4):
                    twin.append((nd, [base, _split_atom(x)[0]]))       # the same relation also stated plainly
    twin = []
    walk(j)
    for nd, br in twin:
        nd[1].append(br)
    if tail:
        # the rightmost path: reify the last branch of every node on it (several closes on the last triple)
        nd = j
        while True:
            brs = [b for b in nd[1] if b[0] != '/']
            if not brs:
                break
            last = brs[-1]
            base, tilde, aln = last[0].partition('~')
            nxt = last[1] if isinstance(last[1], list) else None
            if base in reifs and last[1] is not None:
                concept, sr, tr = reifs[base]
                v = fresh()
                last[0], last[1] = sr + '-of', [v, [['/', concept + tilde + aln], [tr, last[1]]]]
            if nxt is None:
                break
            nd = nxt
    return j


def add_decoy(draw, j, table):
    """Hangs a node under some node of j that LOOKS reified (dereifiable concept, the two argument relations) but has a third
    relation, possibly with one of the argument roles again (:ARG2 country :ARG2 continent): dereify_edges must leave it
    alone.  Mutates and returns j; no-op when the table has no reifications."""
    if not table['reifications']:
        return j
    role, concept, sr, tr = pick(draw, table['reifications'])
    used = set()
    nodes = []

    def collect(nd):
        used.add(nd[0])
        nodes.append(nd)
        for r, x in nd[1]:
            if isinstance(x, list):
                collect(x)
    collect(j)
    v = next(n for n in ['dk', 'dk2', 'dk3', 'dk4'] + ['dk%d' % i for i in range(5, 99)] if n not in used)
    third_role = pick(draw, [tr, tr, sr, ':ARG3', ':polarity'])
    third = [third_role, pick(draw, ['continent', '-', '"s"'])]
    host = nodes[draw(st.integers(0, len(nodes) - 1))]
    if chance(draw, 1, 2):
        host[1].append([sr + '-of', [v, [['/', concept], [tr, 'country'], third]]])
    else:
        # exactly the two argument relations, but the SOURCE argument is a constant: "(5 :mod host)" is no relation, so the
        # node stays; hung in front of the other branches so that later (really collapsible) nodes follow it
        host[1].insert(1 if host[1] and host[1][0][0] == '/' else 0, [tr + '-of', [v, [['/', concept], [sr, pick(draw, ['5', '"s"', '-'])]]]])
    return j


# ---- arbitrary (not necessarily well-formed) trees -----------------------------------------------------------

WILD_ROLES = [':consist', ':prep-out', ':prep-on-behalf', ':made', ':out', ':part', ':member', ':instance-of', ':Consist-of', ':ARG0-OF', ':instance', ':r\xa0', ':ARG0\u3000', ':ARG0', ':ARG1', ':r', ':', ':r-of', ':ARG0-of', ':ARG0-of-of', ':-of', ':mod', ':domain-of', ':op1',
              ':consist-of', ':consist-of-of', ':a.b', ':\u00e9', ':x,y', ':^', ':R#', ':1', ':TOP']


@st.composite
def any_trees(draw, max_nodes=7, canonical_alignments=False, unicode=True, depth=None, max_branches=4):
    """Any tree the grammar can spell: duplicate variables, missing concept/target, nested empty nodes, over-inverted
    roles, Unicode symbols, strings with delimiters, alignments anywhere."""
    budget = [draw(st.integers(1, max_nodes))]
    pool = fy(draw, VARS)[:draw(st.integers(1, 4))]

    def sym():
        if unicode and chance(draw, 1, 6):
            return draw(symbols())
        return pick(draw, ['a', 'b', 'x-01', '-', '1', '"s"', 'i', '+', 'k,'])

    def aln():
        if chance(draw, 1, 4):
            return draw(alignments(canonical=canonical_alignments))
        return ''

    def atom():
        c = draw(st.integers(0, 9))
        if c < 3:
            return pick(draw, pool) + aln()
        if c < 5:
            return draw(strings()) + aln()
        if c < 9:
            return pick(draw, CONSTS) + aln()
        return draw(symbols()) + aln() if unicode else 'q' + aln()

    def role():
        c = draw(st.integers(0, 9))
        if c < 7:
            r = pick(draw, WILD_ROLES)
        elif c < 9 or not unicode:
            r = pick(draw, ROLE_POOL) + '-of' * draw(st.integers(0, 3))
        else:
            r = ':' + draw(symbols())
        return r + aln()

    def node(level):
        budget[0] -= 1
        if level > 0 and chance(draw, 1, 25):
            return [None, []]
        var = pick(draw, pool) if chance(draw, 5, 6) else (draw(symbols()) if unicode else 'w')
        branches = []
        c = draw(st.integers(0, 9))
        if c > 2:
            branches.append(['/', (pick(draw, CONCEPTS) if chance(draw, 4, 5) else draw(strings())) + aln()])
        elif c == 2:
            branches.append(['/', None])
        for _ in range(draw(st.integers(0, max_branches))):
            k = draw(st.integers(0, 9))
            if k < 4 and budget[0] > 0:
                branches.append([role(), node(level + 1)])
            elif k < 8:
                branches.append([role(), atom()])
            else:
                branches.append([role(), None])
        if len(branches) >= 2 and branches[0][0] == '/' and branches[0][1] is not None and chance(draw, 1, 12):
            # the concept written as an explicit :instance relation somewhere after the first branch (legal, unusual)
            c0 = branches.pop(0)
            branches.insert(draw(st.integers(1, len(branches))), [':instance', c0[1]])
        return [var, branches]

    if depth:
        # a chain of *depth* nested nodes, for nesting-limit clauses
        cur = ['z', [['/', 'leaf']]]
        for i in range(depth - 1):
            cur = [pick(draw, pool), [['/', 'n'], [role(), cur]]]
        return cur
    if chance(draw, 1, 40):
        return [None, []]
    return node(0)


# ---- metadata -------------------------------------------------------------------------------------------------

_meta_key = st.text(alphabet=st.sampled_from(list('abkZ09_.-') + ['\t', '\u00e9', ':']), max_size=5).filter(lambda k: '::' not in k and not k.endswith(':') and not k.startswith(':') and not k[-1:].isspace())
_meta_chars = st.one_of(
    st.sampled_from(list('ab 01;()"#:/~,.')),
    st.sampled_from(['\xa0', '\u3000', '\u2028', '\u2029', '\x85', '\x1c', '\x0b', '\x0c', '\t']),
    st.characters(blacklist_categories=('Cs',), blacklist_characters='\n\r'),
)


def _valid_value(v):
    return '::' not in v and (v == '' or not v[-1].isspace()) and not v.endswith(':')


@st.composite
def metadata(draw, max_keys=3):
    """key -> value, exactly the image of the comment scanner: value without '::', LF/CR and without
    trailing str.isspace() characters (leading blanks are part of the value); value does not end in ':' (it would fuse with a following '::')."""
    out = {}
    for _ in range(draw(st.integers(0, max_keys))):
        k = draw(_meta_key)
        v = draw(st.text(alphabet=_meta_chars, max_size=12))
        v = v.rstrip() if chance(draw, 1, 4) else v.strip()       # leading blanks are content; trailing ones are not
        if chance(draw, 1, 5):
            v = pick(draw, [' ', '  ', '\t', ' \t ', '\xa0 ']) + v                     # everything after the FIRST blank is the value
            v = v.rstrip()
        while v.endswith(':'):
            v = v[:-1].rstrip()
        v = v.replace('::', ':;')
        if _valid_value(v):
            out[k] = v
    return out


# ---- bounded-exhaustive small well-formed trees (C02/C03/C04/C14) ------------------------------------------------

def small_trees(max_branches, nvars=3, roles=(':r', ':r-of', ':s'), atoms=('k',), concepts=(None, 'x')):
    """yield (node_json, n_nodes): every tree with <= max_branches non-concept branches in total, nodes named
    a, b, c in order of definition, references to any of the nvars names (also not-yet/never defined ones)."""
    names = ['a', 'b', 'c', 'd'][:nvars]

    def node(var_idx, fresh, budget):
        var = names[var_idx]
        for concept in concepts:
            if concept is None:
                head = []
            elif concept == '/':
                head = [['/', None]]
            else:
                head = [['/', concept]]
            for branches, fresh2, budget2 in branchlists(fresh, budget):
                yield [var, head + branches], fresh2, budget2

    def branchlists(fresh, budget):
        yield [], fresh, budget
        if budget == 0:
            return
        for role in roles:
            for a in atoms:
                for rest, f2, b2 in branchlists(fresh, budget - 1):
                    yield [[role, a]] + rest, f2, b2
            for v in names:
                for rest, f2, b2 in branchlists(fresh, budget - 1):
                    yield [[role, v]] + rest, f2, b2
            if fresh < len(names):
                for child, f1, b1 in node(fresh, fresh + 1, budget - 1):
                    for rest, f2, b2 in branchlists(f1, b1):
                        yield [[role, child]] + rest, f2, b2

    for t, f, b in node(0, 1, max_branches):
        yield t, f


# ---- deterministic deep chains and huge trees (size / depth thresholds) ------------------------------------------------

def deep_chain(depth, variant=0):
    """A well-formed chain of *depth* nested nodes a0 (a1 (a2 ...)); after the nested branch, every 7th node carries an
    extra branch that depends on *variant*: an inverted re-entrancy to an ancestor, a forward re-entrancy to the ancestor,
    an attribute, or an inverted re-entrancy to the root."""
    cur = ['a%d' % (depth - 1), [['/', 'leaf'], [':mod', 'x']]]
    for i in range(depth - 2, -1, -1):
        br = [['/', 'n%d' % (i % 4)]] if i % 5 else []
        br.append([':ARG0' if i % 3 else ':ARG1-of', cur])
        if i % 7 == 3:
            anc = 'a%d' % max(0, i - 2)
            if variant == 0:
                br.append([':ARG1-of', anc])
            elif variant == 1:
                br.append([':ARG2', anc])
            elif variant == 2:
                br.append([':quant', '%d' % i])
            else:
                br.append([':ARG3-of', 'a0'])
        cur = ['a%d' % i, br]
    return cur


def huge_tree(n, shape):
    """star: one node with n children; comb: chain of n//4 nodes each with 3 attribute/child branches; binary: complete binary tree"""
    if shape == 'star':
        return ['r', [['/', 'root']] + [[':op%d' % (i + 1), ['c%d' % i, [['/', 'k%d' % (i % 5)]]]] for i in range(n)] + [[':ARG0', 'c1'], [':ARG1-of', 'c%d' % (n - 1)]]]
    if shape == 'comb':
        cur = ['b%d' % (n // 4), [['/', 'end']]]
        for i in range(n // 4 - 1, -1, -1):
            cur = ['b%d' % i, [['/', 'k'], [':mod', 'x%d' % i], [':ARG0', ['l%d' % i, [['/', 'leaf'], [':quant', '%d' % i]]]], [':ARG1', cur]]]
            if i > 80:
                continue
        return cur
    def bt(i, d):
        if d == 0:
            return ['t%d' % i, [['/', 'leaf%d' % (i % 3)]]]
        return ['t%d' % i, [['/', 'in'], [':ARG0', bt(2 * i + 1, d - 1)], [':ARG1-of', bt(2 * i + 2, d - 1)]]]
    import math
    return bt(0, max(1, int(math.log2(max(2, n))) - 1))
