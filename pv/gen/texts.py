"""Text generators: trees rendered token by token with arbitrary blanks, comments before graphs, mutations."""
from hypothesis import strategies as st

from pv.gen.base import chance, pick
from pv.ref import lex as rlex

SEPS = [' ', ' ', ' ', '\n', '\t', '  ', '\n   ', ' \t ', '\r\n', '\r', '\x0b', '\x0c', ' \n\n ']


def tokens_of(j, detach=None):
    """JSON tree -> list of token texts.  Alignments are separate tokens (they may be written detached)."""
    out = []

    def atom(a):
        if a is None:
            return
        if a.startswith('"'):
            q = a.rfind('"')
            out.append(a[:q + 1])
            if q + 1 < len(a):
                out.append(a[q + 1:])
        elif '~' in a:
            i = a.index('~')
            out.append(a[:i]); out.append(a[i:])
        else:
            out.append(a)

    def node(nd):
        var, branches = nd
        out.append('(')
        if var is not None:
            out.append(var)
            for r, x in branches:
                if r == '/':
                    out.append('/')
                    atom(x)
                    continue
                if '~' in r:
                    i = r.index('~')
                    out.append(r[:i]); out.append(r[i:])
                else:
                    out.append(r)
                if isinstance(x, list):
                    node(x)
                else:
                    atom(x)
        out.append(')')
    node(j)
    return out


def glue_safe(a, b):
    """True if writing a and b with nothing between them still lexes as exactly [a, b] (reference scanner)."""
    toks = rlex.scan_line(a + b)
    return [t[1] for t in toks] == [a, b]


@st.composite
def spaced(draw, toks, tight=1, loose=4):
    """Join token texts with random blanks; '' only where the reference scanner keeps the tokens apart."""
    parts = []
    for i, t in enumerate(toks):
        if i:
            a = toks[i - 1]
            if chance(draw, tight, tight + loose) and glue_safe(a, t) and not a.startswith('#'):
                sep = ''
            else:
                sep = pick(draw, SEPS)
            if a.startswith('#') and '\n' not in sep and '\r' not in sep:
                sep = '\n'
            parts.append(sep)
        parts.append(t)
    return ''.join(parts)


COMMENT_BODIES = ['', ' plain comment', ' ::id 1', ' ::snt a b c', ' ::k1 v1 ::k2 v2', ' junk ::k v', ' ::', ' :: v',
                  ' ::k', ' ::tok ( / : ~ " )', ' ::k \u2028x', ' ::k v\x85w', ' ::dup 1 ::dup 2', '::tight', ' ::k  two  spaces  ',
                  ' ::url http://x/y#z', ' ::id 1  ::snt x', ' ::a b\t ::c d  ', ' ::k std::vec ::j 2', '!shebang ::k v', '#', '# # ::a b',
                  ' ::id\t7', ' ::node\t0\twant-01', ' ::k\x1cv', ' ::k a\x1eb ::j c']


@st.composite
def comment_lines(draw, max_lines=3):
    n = draw(st.integers(0, max_lines))
    return ['#' + pick(draw, COMMENT_BODIES) for _ in range(n)]


VOCAB = ['(', ')', '/', ':r', ':', 'a', 'b', '"s"', '~1', '~e.2', ':r-of', '1', '"', '~', '#c', ',', '^', '\\', 'x~y', ':r~1', 'a~1',
         'b~\u0663', '~\u0663', '"b\\"', '"b\\\\"', '"a\\', '"\\"x"', '"', '"a"b"']


@st.composite
def mutated(draw, toks, max_mut=3):
    """token-level mutations: delete, insert, swap, duplicate"""
    toks = list(toks)
    for _ in range(draw(st.integers(1, max_mut))):
        k = draw(st.integers(0, 3))
        n = len(toks)
        if k == 0 and n:
            del toks[draw(st.integers(0, n - 1))]
        elif k == 1:
            toks.insert(draw(st.integers(0, n)), pick(draw, VOCAB))
        elif k == 2 and n >= 2:
            i = draw(st.integers(0, n - 2))
            toks[i], toks[i + 1] = toks[i + 1], toks[i]
        elif n:
            i = draw(st.integers(0, n - 1))
            toks.insert(i, toks[i])
    return toks
