"""Hand-built graph generators (no trees involved).  JSON graph = {'triples': [[s, r, t], ...], 'top': v | None}."""
from hypothesis import strategies as st

from pv.gen.base import VARS, chance, fy, pick
from pv.gen.trees import role_pool_for
from pv.ref.role import roles_for

G_CONCEPTS = [None, 'alpha', 'beta', '"a string"', 5, 0, 'b', 'a', 'x-01', 1.5, '"x~1"', 'want-01']
G_CONSTS = ['-', '_', '_3', '"C:\\dir"', '"\\d+ it\\\'s"', 'sym', '"str"', '"a b(c)"', '+', 0, 0.0, -1, 1e22, 5, 1.5, None, 'imperative', '"0"', '-0.0', -0.0,
            '"\\"q\\""', '1,000', 12345678901234567890, 'mod', '"# x"', '"x : y"']

_TWINS = {'0': [0.0, -0.0], '0.0': [0, -0.0], '-0.0': [0, 0.0], '-1': [-1.0], '5': [5.0], '1e+22': [10 ** 22], '1.5': ['1.50']}


@st.composite
def wf_graphs(draw, spec, max_vars=6, connected=True, colonless=True, inverted_roles=True, consts=None, concepts=None,
              role_pool=None):
    """Well-formed graph: each variable has exactly one instance triple, triples pairwise distinct (also after the
    model's deinversion), roles in canonical inversion form, no inverted self-loop; weakly connected if asked.
    Triple order is shuffled."""
    R = roles_for(spec)
    fwd, inv = role_pool if role_pool is not None else role_pool_for(spec)
    consts = consts or G_CONSTS
    concepts = concepts or G_CONCEPTS
    n = draw(st.integers(1, max_vars))
    vs = fy(draw, VARS + ['w%d' % i for i in range(max(0, n - len(VARS)))])[:n]
    vset = set(vs)
    seen = set()
    triples = []

    def spell(r):
        if colonless and chance(draw, 1, 6):
            return r[1:]
        return r

    def add_edge(s, t):
        for r in fy(draw, fwd):
            w = r
            if inverted_roles and r in inv and s != t and chance(draw, 1, 5):
                w = inv[r]
            key = (t, w[:-3], s) if (R.inverted(w) and not R.noop) else (s, w, t)
            if key in seen:
                continue
            seen.add(key)
            triples.append([s, spell(w), t])
            return True
        return False

    for v in vs:
        c = pick(draw, concepts)
        triples.append([v, spell(':instance'), c])
    for k in range(1, n):
        if connected or chance(draw, 2, 3):
            o = vs[draw(st.integers(0, k - 1))]
            if chance(draw, 1, 2):
                add_edge(vs[k], o)
            else:
                add_edge(o, vs[k])
    for _ in range(draw(st.integers(0, 2 + n))):
        s = pick(draw, vs)
        if chance(draw, 1, 2):
            add_edge(s, pick(draw, vs))
        else:
            r = pick(draw, fwd)
            if inverted_roles and r in inv and chance(draw, 1, 10):
                r = inv[r]
            c = pick(draw, consts)
            if isinstance(c, str) and c in vset:
                continue
            key = (s, r, None if c is None else str(c))
            if key in seen:
                continue
            seen.add(key)
            triples.append([s, spell(r), c])
            tw = _TWINS.get(repr(c))
            if tw is not None and chance(draw, 1, 3):
                # a second attribute, same source and role, whose constant is == in Python but written differently
                c2 = pick(draw, tw)
                key2 = (s, r, str(c2))
                if key2 not in seen:
                    seen.add(key2)
                    triples.append([s, spell(r), c2])
    triples = fy(draw, triples)
    top = None
    if chance(draw, 1, 2):
        top = pick(draw, vs)
    return {'triples': triples, 'top': top}


@st.composite
def arbitrary_triples(draw, max_triples=10):
    """Any list of triples: duplicates, missing/duplicate instance triples, disconnected parts, over-inverted roles,
    instance triples whose target is a variable, unknown tops."""
    vs = fy(draw, ['a', 'b', 'c', 'd', 'e'])[:draw(st.integers(1, 4))]
    roles = [':instance', 'instance', ':r', 'r', ':r-of', ':ARG0', ':ARG0-of', ':ARG0-of-of', ':', '', ':mod', ':s-of']
    tg = vs + ['x', 'y', 0, 1.5, None, '"s"', 'a', 'zz']
    n = draw(st.integers(0, max_triples))
    out = []
    for _ in range(n):
        if out and chance(draw, 1, 8):
            out.append(list(pick(draw, out)))
        else:
            out.append([pick(draw, vs), pick(draw, roles), pick(draw, tg)])
    return {'triples': out, 'vars': vs}
