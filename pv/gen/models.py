"""Model specs (JSON) for the checks: the four named models and random custom tables."""
from hypothesis import strategies as st

from pv.gen.base import chance, fy, pick

NAMED = [{'name': 'default'}, {'name': 'amr'}, {'name': 'noop'}, {'name': 'mini'}]
DEINVERTING = [{'name': 'default'}, {'name': 'amr'}, {'name': 'mini'}]

_BASES = ['ARG0', 'ARG1', 'mod', 'domain', 'r', 's', 'part', 'poss', 'loc', 'q', 'x2y', 'name']
_OF_NAMES = ['consist-of', 'out-of', 'made-of']          # defined roles that end in -of by definition
_PATTERNS = ['op[0-9]+', 'snt[0-9]+', 'ARG[0-9]', 'x[0-9]y[0-9]+', 'part[0-9]*-of', 'member-(of|to)']
_PATTERN_INSTANCES = {'op[0-9]+': ['op1', 'op2', 'op10', 'op9'], 'snt[0-9]+': ['snt1', 'snt12'], 'ARG[0-9]': ['ARG0', 'ARG5'],
                      'x[0-9]y[0-9]+': ['x2y9', 'x2y10'], 'part[0-9]*-of': ['part-of', 'part2-of'], 'member-(of|to)': ['member-of', 'member-to'],
                      'prep-[a-z-]+': ['prep-out-of', 'prep-on-behalf-of', 'prep-x', 'prep-as-of-of']}
_CONCEPTS = ['have-mod-91', 'own-01', 'be-located-at-91', 'rel-01', 'c-91', 'include-91']


@st.composite
def custom_tables(draw, reifications=True, normalizations=True, open_patterns=False, chains=False, concept_roles=True, foreign_reifications=False):
    """Random role table with the two restrictions the laws need (DESIGN section 3):
    (i) inversion-unambiguous: never both r and r-of defined, and defined roles end in at most one "-of";
    (ii) normalisation values are not keys and are double-inversion fixed points."""
    lits = fy(draw, _BASES)[:draw(st.integers(0, 6))]
    ofs = fy(draw, _OF_NAMES)[:draw(st.integers(0, 2))]
    pats = fy(draw, _PATTERNS)[:draw(st.integers(0, 2))]
    if open_patterns and chance(draw, 1, 3):
        # an open-ended pattern defines r, r-of, r-of-of ... alike: the inversion laws (C13) are void for such roles, but
        # layout round-trips (C02/C03/C04/C14) must still hold for them
        pats.append('prep-[a-z-]+')
    # (i): drop a base whose -of form is also defined (none of the pools overlap that way) and pattern overlaps
    if 'ARG[0-9]' in pats:
        lits = [l for l in lits if not l.startswith('ARG')]
    if 'x[0-9]y[0-9]+' in pats:
        lits = [l for l in lits if l != 'x2y']
    if 'part[0-9]*-of' in pats:
        lits = [l for l in lits if l != 'part']
    roles = [':' + r for r in lits + ofs + pats]
    pool = [':' + r for r in lits + ofs] + [':' + i for p in pats for i in _PATTERN_INSTANCES[p]]
    pool += [':' + b for b in fy(draw, _BASES)[:3] if ':' + b not in pool] + [':foo', ':']
    spec = {'name': 'custom', 'roles': roles, 'normalizations': {}, 'reifications': [], 'pool': pool,
            'noop': chance(draw, 1, 6)}
    if chance(draw, 1, 5):
        spec['top_role'] = pick(draw, [':TOP', ':top', ':ROOT', ':root-of', ':head-of'])
    if 'top_role' in spec:
        spec['pool'] = spec['pool'] + [spec['top_role']]
    if concept_roles and chance(draw, 1, 5):
        # the concept role of a model only adds a defined role: '/' is ':instance' in every graph (penman.graph.CONCEPT_ROLE)
        spec['concept_role'] = pick(draw, [':isa', ':concept', ':Instance', ':kind-of'])
        spec['pool'] = spec['pool'] + [spec['concept_role']]
    defined_lits = [':' + r for r in lits + ofs]
    if normalizations and len(defined_lits) >= 2 and chance(draw, 2, 3):
        # AMR style crossed pairs  :a-of -> :b , :b-of -> :a   (values are defined, hence fixed points, and not keys)
        a, b = fy(draw, defined_lits)[:2]
        spec['normalizations'][a + '-of'] = b
        if chance(draw, 1, 2):
            spec['normalizations'][b + '-of'] = a
        if chance(draw, 1, 3):
            spec['normalizations'][':alias'] = a
        if chains and chance(draw, 1, 2):
            # a chain  b -> :attr : one lookup only, so idempotence is not a law for roles that normalise into b
            spec['normalizations'][b] = ':attr'
    if reifications and defined_lits:
        used = set()
        for r in fy(draw, defined_lits)[:draw(st.integers(0, 3))]:
            c = pick(draw, [c for c in _CONCEPTS if c not in used] or _CONCEPTS)
            used.add(c)
            src, tgt = pick(draw, [(':A1', ':A2'), (':A0', ':A1'), (':A2', ':A1'), (':src', ':tgt')])  # never reifiable themselves
            spec['reifications'].append([r, c, src, tgt])
    if foreign_reifications and chance(draw, 1, 3):
        # a reification for a role the role table does not list: reifiable, but still not a role of the model
        spec['reifications'].append([':undeclared', 'undeclared-91', ':A1', ':A2'])
        spec['pool'] = spec['pool'] + [':undeclared']
    return spec


def case_variants(table, limit=4):
    """Roles that differ from a reifiable role of the table by letter case only (:MOD, :Location): ordinary roles, not
    reifiable and not defined."""
    out = []
    for r in [x[0] for x in table['reifications']][:limit]:
        for v in (':' + r[1:].upper(), ':' + r[1:].capitalize()):
            if v != r and v not in out:
                out.append(v)
    return out


def model_specs(custom=True, noop=True, open_patterns=False, chains=False, hand_noop=False):
    named = [m for m in NAMED if noop or m['name'] != 'noop']
    if hand_noop:
        named = named + [{'name': 'noop', 'by_override': True}]      # only where no re-topping / inversion law is involved (decoding, C02/C04/C14)
    if not custom:
        return st.sampled_from(named)
    return st.one_of(st.sampled_from(named), st.sampled_from(named), custom_tables(open_patterns=open_patterns, chains=chains))
