"""Shared pools and small strategies.  All cases are JSON values."""
from hypothesis import strategies as st

BLANK = ' \t\r\n\v\f'
NOT_NAME = BLANK + '"()/:~'

# non-ASCII blanks / line separators that must be ordinary name/string/comment characters
EXOTIC = ['\xa0', '\u3000', '\u2028', '\u2029', '\x85', '\x1c', '\x1d', '\x1e', '\x0b', '\x0c']
EXOTIC_NAME = ['\xa0', '\u3000', '\u2028', '\u2029', '\x85', '\x1c', '\x1d', '\x1e',  # VT/FF are ASCII blanks
               '\ufeff', '\u200b', '\u0301', '\u0130', '\u212b', '\u01c5', '\u0663']   # BOM, ZWSP, combining, dotted I, Angstrom, titlecase, Arabic digit

VARS = ['a', 'b', 'c', 'd', 'e', 'x1', '_', '_2', 'i', 'x', 'v1', 'z0', 'k', '_9', '_10', '1', '2.5', 'top', 'b0', 'n10']


def fy(draw, xs):
    """Fisher-Yates shuffle from integer draws (st.permutations never runs under fuzz_one_input)."""
    xs = list(xs)
    for i in range(len(xs) - 1, 0, -1):
        j = draw(st.integers(0, i))
        xs[i], xs[j] = xs[j], xs[i]
    return xs


def pick(draw, xs):
    return xs[draw(st.integers(0, len(xs) - 1))]


def chance(draw, num, den):
    return draw(st.integers(0, den - 1)) < num


# ---- lexical atoms -----------------------------------------------------------------------------------------

_name_chars = st.one_of(
    st.sampled_from(list('abcxyzAZ019-_+.,^#\'|=@\\*&%$!?<>[]{};`')),
    st.sampled_from(EXOTIC_NAME),
    st.characters(blacklist_categories=('Cs',), blacklist_characters=NOT_NAME),
)


@st.composite
def symbols(draw, max_size=8, exotic=True):
    """NameChar+ not starting with '#' (a leading '#' would be a comment)."""
    if not exotic or chance(draw, 3, 4):
        s = draw(st.sampled_from(['a', 'b', 'alpha', 'x-01', '-', '+', '1', '1.5', '-3', 'a.b', 'b,c', '^x', "d'", '|', 'k#', 'A', 'i', '_',
                                  'None', 'null', 'true', 'C#', 'issue#12', '\ufeffKim', 'e\u0301', '\u0130stanbul', '1e21', '12345678901234567890']))
        return s
    s = draw(st.text(alphabet=_name_chars, min_size=1, max_size=max_size))
    if s.startswith('#'):
        s = 'h' + s
    return s


_str_chars = st.one_of(
    st.sampled_from(list('ab 01()/:~#,^.-\'')),
    st.sampled_from(EXOTIC_NAME + ['\t']),
    st.characters(blacklist_categories=('Cs',), blacklist_characters='"\\\n\r\f\v'),
)


@st.composite
def strings(draw, max_size=8):
    """'"' (StrChar | '\\' StrChar)* '"' with StrChar not in {" \\ LF CR FF VT}; escapes included."""
    parts = []
    n = draw(st.integers(0, max_size))
    for _ in range(n):
        c = draw(_str_chars)
        if chance(draw, 1, 6):
            parts.append('\\' + draw(st.sampled_from(['"', '\\', 'n', 't', 'u', c if c not in '\n\r\f\v' else 'x'])))
        else:
            parts.append(c)
    return '"' + ''.join(parts) + '"'


@st.composite
def alignments(draw, canonical=True):
    """'~' ([a-zA-Z] '.'?)? Digit+ (',' Digit+)*; canonical = integers spelled without leading zeros."""
    pre = draw(st.sampled_from(['', '', 'e.', 'e', 'E.', 'x', 'Z.']))
    n = draw(st.sampled_from([1, 1, 1, 2, 2, 3, 3, 12]))
    nums = []
    for _ in range(n):
        v = draw(st.sampled_from([0, 1, 2, 5, 10, 12, 123, 9, 99, 100, 1000, 65536]))
        s = str(v)
        if not canonical and chance(draw, 1, 4):
            s = '0' + s
        nums.append(s)
    return '~' + pre + ','.join(nums)


ROLE_POOL = [':Consist', ':PART-OF', ':INSTANCE', ':Mod', ':MOD', ':TOP', ':op01', ':op', ':op0', ':ARG0', ':ARG1', ':ARG2', ':mod', ':domain', ':op1', ':op2', ':op10', ':op9', ':op11', ':op100', ':op99', ':polarity', ':quant',
             ':', ':r', ':s', ':time', ':location', ':part', ':name', ':x2y9', ':x2y10', ':consist', ':poss', ':wiki']

MODEL_NAMES = ['default', 'amr', 'noop', 'mini']
