"""Seed strings harvested at run time from the repository's own tests (read from $PV_REPO, never copied into /verif)."""
import ast
import glob
import os


def test_strings(limit=200, must_contain='('):
    repo = os.environ.get('PV_REPO', '/repo')
    out, seen = [], set()
    for p in sorted(glob.glob(os.path.join(repo, 'tests', '*.py'))):
        try:
            tree = ast.parse(open(p, encoding='utf-8').read())
        except Exception:
            continue
        for node in ast.walk(tree):
            if isinstance(node, ast.Constant) and isinstance(node.value, str):
                s = node.value
                if must_contain in s and 2 <= len(s) <= 400 and s not in seen:
                    seen.add(s)
                    out.append(s)
    return out[:limit]


DICTIONARY = ['(', ')', '/', ':', ':ARG0', ':ARG0-of', '~1', '~e.2', '"', '\\"', '\\\\', '#', '# ::id 1', '::', '-of', ' ^ ', ',', '\n', '\r\n',
              '(a / b)', ':r', 'instance(a, b)', '\x0b', '\xa0', '\u2028']
