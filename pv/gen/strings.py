"""Bounded-exhaustive string enumeration split into chunks by prefix (for multiprocessing)."""
import itertools


def prefix_chunks(alpha, maxlen, nprefix=2):
    """-> list of chunk descriptors covering every string over *alpha* of length <= maxlen exactly once."""
    nprefix = min(nprefix, maxlen)
    chunks = [{'short': True}]
    for tup in itertools.product(alpha, repeat=nprefix):
        chunks.append({'prefix': ''.join(tup)})
    return chunks


def strings_of(chunk, alpha, maxlen, nprefix=2):
    nprefix = min(nprefix, maxlen)
    if chunk.get('short'):
        for l in range(0, nprefix):
            for tup in itertools.product(alpha, repeat=l):
                yield ''.join(tup)
        return
    p = chunk['prefix']
    for l in range(0, maxlen - nprefix + 1):
        for tup in itertools.product(alpha, repeat=l):
            yield p + ''.join(tup)


def count(alpha, maxlen):
    return sum(len(alpha) ** l for l in range(maxlen + 1))
