"""CLI: python -m pv.run <Cxx> [--tier quick|thorough] [--replay FILE]"""
import argparse
import os
import sys


def main():
    ap = argparse.ArgumentParser()
    ap.add_argument('property')
    ap.add_argument('--tier', default=os.environ.get('VERIF_TIER') or 'quick', choices=['quick', 'thorough'])
    ap.add_argument('--replay')
    a = ap.parse_args()
    try:
        seed = int(os.environ.get('VERIF_SEED') or '1')
    except ValueError:
        seed = 1
    for stream in (sys.stdout, sys.stderr):
        try:
            stream.reconfigure(errors='backslashreplace')      # details may quote lone surrogates and other unencodable text
        except Exception:
            pass
    from pv import harness
    try:
        rc = harness.main(a.property.upper(), a.tier, seed, replay=a.replay)
    except harness.HarnessError as e:
        print('HARNESS-ERROR: %s' % e)
        rc = 2
    except BaseException as e:  # never turn a harness crash into exit status 1
        import traceback
        traceback.print_exc()
        print('HARNESS-ERROR: %r' % (e,))
        rc = 2
    try:
        import signal
        signal.setitimer(signal.ITIMER_REAL, 0, 0)
        signal.signal(signal.SIGALRM, signal.SIG_IGN)
    except Exception:
        pass
    sys.stdout.flush()
    sys.exit(rc)


if __name__ == '__main__':
    main()
