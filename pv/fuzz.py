"""Coverage-guided stage runner (atheris / libFuzzer), executed as a subprocess by the harness:

    python -m pv.fuzz <module> <stage-index> <tier> <stats.pickle> <corpus-dir> <runs> <seed>

The target decodes the fuzzer's bytes into a case (raw text, or a structured case through Hypothesis' fuzz_one_input),
runs the property's ordinary check() on it in collect mode (a failing case is bucketed and the campaign continues), and
dumps the collector every few thousand executions, because libFuzzer ends the process from inside atheris.Fuzz().
"""
import logging
import os
import pickle
import sys


def main():
    modname, si, tier, stats, corpus, runs, seed = sys.argv[1:8]
    si, runs, seed = int(si), int(runs), int(seed)
    logging.disable(logging.CRITICAL)
    import atheris
    with atheris.instrument_imports(include=['penman']):
        import penman  # noqa: F401
        import penman.layout, penman.transform, penman.codec, penman._parse, penman._lexer, penman._format, penman.model  # noqa
    import importlib
    from pv import harness
    mod = importlib.import_module(modname)
    stage = mod.stages(tier)[si]
    col = harness.Collector(mod, stage.name)
    state = {'n': 0}

    def dump():
        tmp = stats + '.tmp'
        with open(tmp, 'wb') as fh:
            pickle.dump(col.result(dict(kind='fuzz', wall_s=0.0, execs=state['n'])), fh)
        os.replace(tmp, stats)

    def observe(case):
        nb = len(col.buckets)
        col.observe(case)
        if len(col.buckets) != nb:
            dump()

    if stage.structured is not None:
        from hypothesis import given, settings, HealthCheck
        test = settings(database=None, deadline=None, suppress_health_check=list(HealthCheck))(given(stage.structured())(observe))
        fuzz_one = test.hypothesis.fuzz_one_input

        def target(data):
            state['n'] += 1
            fuzz_one(data)
            if state['n'] % 2000 == 0 or state['n'] == runs:
                dump()
    else:
        def target(data):
            state['n'] += 1
            case = stage.decode(data)
            if case is not None:
                observe(case)
            if state['n'] % 5000 == 0 or state['n'] == runs:
                dump()

    os.makedirs(corpus, exist_ok=True)
    for i, s in enumerate(stage.seeds or []):
        with open(os.path.join(corpus, 'seed%03d' % i), 'wb') as fh:
            fh.write(s if isinstance(s, bytes) else s.encode('utf-8'))
    argv = [sys.argv[0], corpus, '-runs=%d' % runs, '-seed=%d' % seed, '-max_len=%d' % stage.max_len, '-verbosity=0', '-print_final_stats=0']
    if stage.dictionary:
        dpath = stats + '.dict'
        with open(dpath, 'w', encoding='utf-8') as fh:
            for tok in stage.dictionary:
                fh.write('"%s"\n' % ''.join('\\x%02x' % b for b in tok.encode('utf-8')))
        argv.append('-dict=' + dpath)
    dump()
    atheris.Setup(argv, target)
    atheris.Fuzz()


if __name__ == '__main__':
    main()
