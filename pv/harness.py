"""penman-verif harness: staged generated-input search with collect -> bucket -> shrink.

A property module (pv/props/cNN.py) defines

    ID, TITLE, RULE, ASSUMPTIONS
    stages(tier)            -> list of Stage
    check(case)             -> list of (subcheck, detail) failures   (pure function of the JSON case)
    nontrivial(case)        -> bool
    classes(case)           -> iterable of str          (what the generator actually produced)
    known(case, subcheck)   -> id of an OPEN known finding the failure matches, or None  (optional)

Cases are plain JSON values (dict/list/str/int/float/bool/None), so that every
failure is a replay file and a replay needs no Hypothesis.

Stage kinds
    Hyp     Hypothesis strategy producing cases (sharded over processes, seed = f(VERIF_SEED, shard))
    Enum    bounded-exhaustive enumeration: chunks(tier) -> list of JSON chunks, cases(chunk) -> iterator of cases
    Machine Hypothesis RuleBasedStateMachine factory; the machine reports finished histories as cases

Exit status: 0 held / 1 VIOLATION line(s) / 2 HARNESS-ERROR.
"""
import hashlib
import importlib
import json
import logging
import multiprocessing as mp
import os
import signal
import sys
import time
import traceback
from collections import Counter

ROOT = os.path.dirname(os.path.dirname(os.path.abspath(__file__)))
NPROC = int(os.environ.get('PV_NPROC', '16'))
WATCHDOG_S = int(os.environ.get('PV_WATCHDOG', '60'))


class HarnessError(Exception):
    pass


def tmpdir():
    """Per-run scratch directory (created on demand, removed by main() when the run ends)."""
    base = os.environ.get('PV_TMP')
    if not base:
        base = os.path.join(ROOT, 'out', 'tmp', 'adhoc-%d' % os.getpid())
    d = os.path.join(base, 'w%d' % os.getpid())
    os.makedirs(d, exist_ok=True)
    return d


class ShardAbort(BaseException):
    """three cases of one shard hit the per-case watchdog: the shard stops and reports what it has (a change that makes
    many inputs hang must be reported within minutes, not after every case has used its full budget)"""


class CaseTimeout(BaseException):
    pass


# --------------------------------------------------------------------------- stages

class Stage:
    kind = None

    def __init__(self, name, quick, thorough, **kw):
        self.name = name
        self.quick = quick
        self.thorough = thorough
        self.__dict__.update(kw)

    def budget(self, tier):
        return self.thorough if tier == 'thorough' else self.quick


class Hyp(Stage):
    """strategy: zero-arg callable returning a Hypothesis strategy of cases."""
    kind = 'hyp'

    def __init__(self, name, strategy, quick, thorough, shards=None):
        super().__init__(name, quick, thorough, strategy=strategy, shards=shards)


class Enum(Stage):
    """chunks(tier) -> list of JSON-able chunk descriptors; cases(chunk) -> iterator of cases.
    quick/thorough are passed through to chunks() as the tier name only."""
    kind = 'enum'

    def __init__(self, name, chunks, cases, exhaustive_note=''):
        super().__init__(name, None, None, chunks=chunks, cases=cases, note=exhaustive_note)


class Machine(Stage):
    """factory(report) -> RuleBasedStateMachine subclass; report(case) is called once per finished history
    (from teardown).  quick/thorough = (n_histories, steps)."""
    kind = 'machine'

    def __init__(self, name, factory, quick, thorough):
        super().__init__(name, quick, thorough, factory=factory)


class Fuzz(Stage):
    """Coverage-guided campaign (atheris).  Either decode(bytes) -> case | None, or structured = zero-arg callable returning a
    Hypothesis strategy of cases (driven through fuzz_one_input).  quick/thorough = total executions (0 = stage skipped)."""
    kind = 'fuzz'

    def __init__(self, name, quick, thorough, decode=None, structured=None, seeds=None, dictionary=None, max_len=256, shards=NPROC):
        super().__init__(name, quick, thorough, decode=decode, structured=structured, seeds=seeds, dictionary=dictionary,
                         max_len=max_len, shards=shards)


def atheris_available():
    try:
        import importlib.util
        return importlib.util.find_spec('atheris') is not None
    except Exception:
        return False


# --------------------------------------------------------------------------- collector

def case_hash(case):
    s = json.dumps(case, sort_keys=True, ensure_ascii=True, default=repr)
    return int.from_bytes(hashlib.blake2b(s.encode('ascii'), digest_size=8).digest(), 'big')


def case_size(case):
    return len(json.dumps(case, ensure_ascii=True, default=repr))


_WD = {'start': None, 'armed': None}


def _tick(signum, frame):
    st = _WD['start']
    if st is not None and time.monotonic() - st > WATCHDOG_S:
        _WD['start'] = None
        raise CaseTimeout()


def _arm_watchdog():
    """One repeating timer per process; the handler only acts when a case has been running too long."""
    if _WD['armed'] != os.getpid():
        signal.signal(signal.SIGALRM, _tick)
        signal.setitimer(signal.ITIMER_REAL, 2.0, 2.0)
        _WD['armed'] = os.getpid()


def _disarm_watchdog():
    try:
        signal.setitimer(signal.ITIMER_REAL, 0, 0)
        signal.signal(signal.SIGALRM, signal.SIG_IGN)
    except Exception:
        pass
    _WD['armed'] = None


def innermost_repo_frame(tb):
    """(file:function) of the innermost traceback frame inside the penman package, or None."""
    found = None
    for fs in traceback.extract_tb(tb):
        fn = fs.filename.replace('\\', '/')
        if '/penman/' in fn and '/pv/' not in fn:
            found = '%s:%s' % (os.path.basename(fn), fs.name)
    return found


class Collector:
    """Runs check(case) for every case, never raises for a property failure, keeps per-bucket witnesses."""

    def __init__(self, mod, stage_name):
        self.mod = mod
        self.stage = stage_name
        self.evaluations = 0
        self.nontrivial = set()
        self.classes = Counter()
        self.buckets = {}      # key -> dict(count, case, detail, size)
        self.samples = []      # small reservoir
        self.largest = None
        self._k = 0
        self.origin = None

    def run_check(self, case):
        """-> list of (subcheck, detail).  A per-process interval timer (armed once) polices the per-case budget."""
        _arm_watchdog()
        _WD['start'] = time.monotonic()
        try:
            try:
                fails = list(self.mod.check(case) or ())
            except CaseTimeout:
                fails = [('hang', 'no result within %d s' % WATCHDOG_S)]
            except RecursionError as e:
                where = innermost_repo_frame(e.__traceback__)
                fails = [('exc:RecursionError@%s' % where, 'RecursionError')]
            except Exception as e:  # an oracle fed with penman output crashed, or penman raised
                where = innermost_repo_frame(e.__traceback__)
                tag = 'exc:%s@%s' % (type(e).__name__, where or 'oracle')
                fails = [(tag, ''.join(traceback.format_exception_only(type(e), e)).strip()[:400])]
        finally:
            _WD['start'] = None
        return fails

    def observe(self, case):
        self.evaluations += 1
        fails = self.run_check(case)
        if any(sub == 'hang' for sub, _ in fails):
            self.hangs = getattr(self, 'hangs', 0) + 1
        try:
            nt = bool(self.mod.nontrivial(case))
        except Exception:
            nt = False
        if nt:
            self.nontrivial.add(case_hash(case))
        try:
            for c in self.mod.classes(case):
                self.classes[c] += 1
        except Exception:
            self.classes['<classify-error>'] += 1
        # samples: first 3, then sparse reservoir, plus the largest non-trivial one
        self._k += 1
        if len(self.samples) < 3 or (self._k & (self._k - 1)) == 0 and len(self.samples) < 12:
            self.samples.append(case)
        if nt:
            sz = case_size(case)
            if self.largest is None or sz > self.largest[0]:
                self.largest = (sz, case)
        for sub, detail in fails:
            sz = case_size(case)
            b = self.buckets.get(sub)
            if b is None:
                self.buckets[sub] = dict(count=1, case=case, detail=detail, size=sz, stage=self.stage,
                                         origin=self.origin)
            else:
                b['count'] += 1
                if sz < b['size']:
                    b.update(case=case, detail=detail, size=sz, stage=self.stage, origin=self.origin)
        if getattr(self, 'hangs', 0) >= 3:
            raise ShardAbort()
        return fails

    def result(self, extra=None):
        r = dict(stage=self.stage, evaluations=self.evaluations, nontrivial=self.nontrivial,
                 classes=self.classes, buckets=self.buckets, samples=self.samples[:12],
                 largest=self.largest)
        if extra:
            r.update(extra)
        return r


# --------------------------------------------------------------------------- workers

def _hyp_settings(n, phases=None, steps=None):
    from hypothesis import settings, HealthCheck, Phase
    kw = dict(max_examples=max(1, n), deadline=None, database=None, derandomize=False,
              report_multiple_bugs=False, suppress_health_check=list(HealthCheck),
              phases=phases or (Phase.generate,))
    if steps:
        kw['stateful_step_count'] = steps
    return settings(**kw)


def _work(task):
    """Executed in a forked worker.  task = (modname, tier, stage_index, shard, nshards, seed, payload)"""
    modname, tier, si, shard, nshards, vseed, payload = task
    logging.disable(logging.CRITICAL)
    try:
        mod = importlib.import_module(modname)
        stage = mod.stages(tier)[si]
        col = Collector(mod, stage.name)
        t0 = time.time()
        if stage.kind == 'enum':
            try:
                for case in stage.cases(payload):
                    col.observe(case)
            except ShardAbort:
                col.classes['<shard aborted after 3 hangs>'] += 1
            extra = dict(kind='enum')
        elif stage.kind == 'hyp':
            import hypothesis
            from hypothesis import given
            n = payload
            sd = (vseed * 1000003 + si * 1009 + shard) & 0x7FFFFFFF
            col.origin = dict(seed=sd, n=n)

            @hypothesis.seed(sd)
            @_hyp_settings(n)
            @given(stage.strategy())
            def run(case):
                col.observe(case)
            try:
                run()
            except ShardAbort:
                col.classes['<shard aborted after 3 hangs>'] += 1
            extra = dict(kind='hyp', seed=sd)
        elif stage.kind == 'machine':
            import hypothesis
            from hypothesis.stateful import run_state_machine_as_test
            n, steps = payload
            sd = (vseed * 1000003 + si * 1009 + shard) & 0x7FFFFFFF
            cls = stage.factory(col.observe)
            try:
                run_state_machine_as_test(hypothesis.seed(sd)(cls), settings=_hyp_settings(n, steps=steps))
            except ShardAbort:
                col.classes['<shard aborted after 3 hangs>'] += 1
            extra = dict(kind='machine', seed=sd)
        elif stage.kind == 'fuzz':
            import pickle
            import subprocess
            runs = payload
            sd = (vseed * 1000 + si * 37 + shard) & 0x7FFFFFFF or 1
            d = os.path.join(tmpdir(), 'fuzz-%d-%d' % (si, shard))
            os.makedirs(d, exist_ok=True)
            stats = os.path.join(d, 'stats.pickle')
            p = subprocess.run([sys.executable, '-m', 'pv.fuzz', modname, str(si), tier, stats, os.path.join(d, 'corpus'), str(runs), str(sd)],
                               stdout=subprocess.PIPE, stderr=subprocess.STDOUT, cwd=ROOT)
            if not os.path.exists(stats):
                raise HarnessError('fuzz stage produced no statistics: %s' % p.stdout.decode('utf-8', 'replace')[-1500:])
            with open(stats, 'rb') as fh:
                res = pickle.load(fh)
            res['wall_s'] = time.time() - t0
            res['kind'] = 'fuzz'
            ncorpus = len(os.listdir(os.path.join(d, 'corpus'))) if os.path.isdir(os.path.join(d, 'corpus')) else 0
            res['classes']['fuzz:corpus-entries'] += ncorpus
            res['classes']['fuzz:executions'] += res.get('execs', 0)
            if p.returncode not in (0,):
                res['classes']['fuzz:abnormal-exit-%s' % p.returncode] += 1
            return ('ok', res)
        else:
            raise HarnessError('unknown stage kind %r' % stage.kind)
        extra['wall_s'] = time.time() - t0
        return ('ok', col.result(extra))
    except BaseException as e:  # harness problem (generator, import, health check ...)
        return ('err', 'stage %s shard %s: %s' % (si, shard, ''.join(traceback.format_exception(type(e), e, e.__traceback__))[-3000:]))


# --------------------------------------------------------------------------- shrinking

def shrink_bucket(mod, stage, sub, origin, budget_s=90):
    """Re-run the Hypothesis shard that produced the bucket's witness (same seed, same budget: the same case
    sequence) with a body that fails on this bucket only and the shrink phase on.
    Returns {'case', 'detail'} for the minimal failing case, or None.  Bounded by a deadline checked per case."""
    import hypothesis
    from hypothesis import given, Phase
    last = {}

    class Found(Exception):
        pass

    col = Collector(mod, stage.name)
    deadline = time.monotonic() + budget_s

    def body(case):
        if time.monotonic() > deadline:
            raise CaseTimeout()
        fails = col.run_check(case)
        if any(s == sub for s, _ in fails):
            last['case'] = case
            last['detail'] = [d for s, d in fails if s == sub][0]
            raise Found()

    test = hypothesis.seed(origin['seed'])(_hyp_settings(origin['n'], phases=(Phase.generate, Phase.shrink))(
        given(stage.strategy())(body)))
    try:
        test()
    except (Found, CaseTimeout):
        pass
    except Exception:
        pass
    return last or None


# --------------------------------------------------------------------------- driver

def load_known():
    p = os.path.join(ROOT, 'known_findings.json')
    if not os.path.exists(p):
        return []
    with open(p, encoding='utf-8') as f:
        return json.load(f)['findings']


def replay_files(pid):
    d = os.path.join(ROOT, 'replays', pid)
    if not os.path.isdir(d):
        return []
    return [os.path.join(d, f) for f in sorted(os.listdir(d)) if f.endswith('.json')]


def write_replay(pid, sub, case, detail, tier, vseed):
    d = os.path.join(os.environ.get('PV_OUT') or os.path.join(ROOT, 'out'), 'replays', pid)
    os.makedirs(d, exist_ok=True)
    tag = ''.join(c if c.isalnum() else '_' for c in sub)[:60]
    h = '%016x' % case_hash(case)
    path = os.path.join(d, '%s-%s.json' % (tag, h[:10]))
    with open(path, 'w', encoding='utf-8') as f:
        json.dump(dict(property=pid, subcheck=sub, detail=detail, tier=tier, seed=vseed, case=case),
                  f, ensure_ascii=True, indent=1, default=repr)
    return os.path.relpath(path, ROOT)


def run_replay(mod, path, quiet=False):
    """-> list of (subcheck, detail) for the saved case (no Hypothesis involved)."""
    with open(path, encoding='utf-8') as f:
        doc = json.load(f)
    col = Collector(mod, 'replay')
    return doc, col.run_check(doc['case'])


def assert_repo(mod_penman):
    want = os.path.realpath(os.environ.get('PV_REPO', '/repo'))
    got = os.path.realpath(os.path.dirname(os.path.dirname(mod_penman.__file__)))
    if got != want:
        raise HarnessError('penman imported from %s, expected %s' % (got, want))


def main(pid, tier, vseed, replay=None):
    import shutil
    os.environ['PV_TMP'] = os.path.join(os.environ.get('PV_OUT') or os.path.join(ROOT, 'out'), 'tmp', '%s-%d' % (pid, os.getpid()))
    try:
        return _main(pid, tier, vseed, replay)
    finally:
        _disarm_watchdog()      # a tick during interpreter shutdown (handlers already reset) would kill the process with SIGALRM
        shutil.rmtree(os.environ['PV_TMP'], ignore_errors=True)


def _main(pid, tier, vseed, replay=None):
    t0 = time.time()
    logging.disable(logging.CRITICAL)
    modname = 'pv.props.' + pid.lower()
    try:
        import penman
        assert_repo(penman)
        mod = importlib.import_module(modname)
    except BaseException as e:
        print('HARNESS-ERROR: cannot import: %s' % ''.join(traceback.format_exception(type(e), e, e.__traceback__))[-2000:])
        return 2

    if replay:
        doc, fails = run_replay(mod, replay)
        if fails:
            for sub, detail in fails:
                print('  %s: %s' % (sub, detail))
            print('VIOLATION property=%s replay=%s' % (pid, replay))
            return 1
        print('replay passes: %s' % replay)
        return 0

    known = [k for k in load_known() if k['property'] == pid]
    open_known = {k['id']: k for k in known if k['status'] == 'open'}
    violations = []         # (sub, path)
    known_lines = []
    replays_run = []

    # 1. regression tier: committed replays
    for path in replay_files(pid):
        doc, fails = run_replay(mod, path)
        rel = os.path.relpath(path, ROOT)
        replays_run.append(rel)
        fid = doc.get('finding')
        if fid in open_known:
            if fails:
                known_lines.append('KNOWN-FINDING: property=%s %s' % (pid, open_known[fid]['what']))
            else:
                print('note: open finding %s no longer reproduces from %s' % (fid, rel))
        elif fails:
            for sub, detail in fails:
                print('  replay %s: %s: %s' % (rel, sub, detail))
            violations.append((fails[0][0], path))

    # 2. generated search
    try:
        stages = mod.stages(tier)
    except BaseException as e:
        print('HARNESS-ERROR: stages(): %s' % ''.join(traceback.format_exception(type(e), e, e.__traceback__))[-2000:])
        return 2
    tasks = []
    for si, st in enumerate(stages):
        if st.kind == 'enum':
            chunks = st.chunks(tier)
            for ci, ch in enumerate(chunks):
                tasks.append((modname, tier, si, ci, len(chunks), vseed, ch))
        elif st.kind == 'hyp':
            n = st.budget(tier)
            shards = st.shards or (NPROC if n >= 16 * 20 else max(1, n // 20))
            for sh in range(shards):
                tasks.append((modname, tier, si, sh, shards, vseed, n // shards + (1 if sh < n % shards else 0)))
        elif st.kind == 'fuzz':
            n = st.budget(tier)
            if not n:
                continue
            if not atheris_available():
                print('note: atheris is not installed (./setup.sh); coverage-guided stage %s skipped' % st.name)
                continue
            for sh in range(st.shards):
                tasks.append((modname, tier, si, sh, st.shards, vseed, max(1, n // st.shards)))
        elif st.kind == 'machine':
            n, steps = st.budget(tier)
            shards = NPROC if n >= 16 * 4 else max(1, n // 4)
            for sh in range(shards):
                tasks.append((modname, tier, si, sh, shards, vseed, (n // shards + (1 if sh < n % shards else 0), steps)))
    merged = {}
    errors = []
    ctx = mp.get_context('fork')
    # longest tasks first is unknowable; interleave stages so that all cores stay busy
    with ctx.Pool(min(NPROC, max(1, len(tasks)))) as pool:
        for status, res in pool.imap_unordered(_work, tasks, chunksize=1):
            if status == 'err':
                errors.append(res)
                continue
            m = merged.setdefault(res['stage'], dict(evaluations=0, nontrivial=set(), classes=Counter(),
                                                     buckets={}, samples=[], largest=None, wall_s=0.0,
                                                     kind=res['kind'], tasks=0))
            m['evaluations'] += res['evaluations']
            m['nontrivial'] |= res['nontrivial']
            m['classes'].update(res['classes'])
            m['wall_s'] += res['wall_s']
            m['tasks'] += 1
            if len(m['samples']) < 6:
                m['samples'].extend(res['samples'][:2])
            if res['largest'] and (m['largest'] is None or res['largest'][0] > m['largest'][0]):
                m['largest'] = res['largest']
            for sub, b in res['buckets'].items():
                mb = m['buckets'].get(sub)
                if mb is None:
                    m['buckets'][sub] = dict(b)
                else:
                    mb['count'] += b['count']
                    if b['size'] < mb['size']:
                        mb.update(case=b['case'], detail=b['detail'], size=b['size'], origin=b.get('origin'))
            if os.environ.get('PV_FAILFAST') == '1' and any(not (hasattr(mod, 'known') and mod.known(b_['case'], sub_))
                                                            for sub_, b_ in res['buckets'].items()):
                break           # tooling aid for sensitivity runs (selftest / mutation sweeps): one violation is enough
    if errors:
        for e in errors[:3]:
            print('HARNESS-ERROR: %s' % e)
        return 2

    # 3. buckets -> shrink -> VIOLATION / KNOWN-FINDING
    all_buckets = {}       # one bucket per (subcheck, stage): different stages reach different root causes
    for sname, m in merged.items():
        for sub, b in m['buckets'].items():
            all_buckets[(sub, sname)] = dict(b, stage=sname)
    excluded = 0
    for sub, sname in sorted(all_buckets):
        b = all_buckets[(sub, sname)]
        case, detail = b['case'], b['detail']
        si = [i for i, s in enumerate(stages) if s.name == b['stage']][0]
        pre = None
        if hasattr(mod, 'known'):
            try:
                pre = mod.known(case, sub)
            except Exception:
                pre = None
        if pre in open_known:
            pass        # an open known finding needs no minimisation: its committed replay is the witness
        elif stages[si].kind == 'hyp' and os.environ.get('PV_SHRINK', '1') != '0':
            budget = 240 if tier == 'thorough' else 45
            try:
                got = shrink_bucket(mod, stages[si], sub, b['origin'], budget_s=budget) if b.get('origin') else None
            except BaseException:
                got = None
            if got and case_size(got['case']) <= b['size']:
                case, detail = got['case'], got['detail']
        fid = None
        if hasattr(mod, 'known'):
            try:
                fid = mod.known(case, sub)
            except Exception:
                fid = None
        if fid in open_known:
            line = 'KNOWN-FINDING: property=%s %s' % (pid, open_known[fid]['what'])
            if line not in known_lines:
                known_lines.append(line)
            excluded += b['count']
            continue
        path = write_replay(pid, sub, case, detail, tier, vseed)
        print('  bucket %s (%d cases, stage %s): %s' % (sub, b['count'], b['stage'], str(detail)[:600]))
        violations.append((sub, path))

    # 4. evidence
    evaluations = sum(m['evaluations'] for m in merged.values())
    nontriv = set()
    for m in merged.values():
        nontriv |= m['nontrivial']
    samples = []
    for m in merged.values():
        samples.extend(m['samples'][:4])
        if m['largest']:
            samples.append(m['largest'][1])
    samples = samples[:24]
    stage_info = []
    for st in stages:
        m = merged.get(st.name)
        if not m:
            continue
        info = dict(name=st.name, kind=st.kind, evaluations=m['evaluations'], distinct_nontrivial=len(m['nontrivial']),
                    tasks=m['tasks'], cpu_s=round(m['wall_s'], 2), classes=dict(m['classes'].most_common(40)))
        if st.kind == 'enum':
            info['exhaustive'] = True
            info['bound'] = st.note
        stage_info.append(info)
    classes = Counter()
    for m in merged.values():
        classes.update(m['classes'])
    ev = dict(
        property_id=pid, tier=tier, seed=vseed, level='exploration',
        coverage=dict(
            evaluations=evaluations + len(replays_run),
            distinct_nontrivial=len(nontriv),
            rule=mod.RULE,
            samples=samples,
            exhaustive=False,
            stages=stage_info,
            class_histogram=dict(classes.most_common(60)),
            replays_run=replays_run,
            open_known_findings=sorted(open_known),
            cases_matching_open_findings=excluded,
            failure_buckets={'%s @%s' % k: b['count'] for k, b in all_buckets.items()},
        ),
        assumptions=list(mod.ASSUMPTIONS),
        wall_s=round(time.time() - t0, 2),
        violations=len(violations),
    )
    evdir = os.environ.get('PV_EVIDENCE_DIR') or os.path.join(ROOT, 'evidence')
    os.makedirs(evdir, exist_ok=True)
    with open(os.path.join(evdir, pid + '.json'), 'w', encoding='utf-8') as f:
        json.dump(ev, f, ensure_ascii=True, indent=1, default=repr)

    for line in known_lines:
        print(line)
    print('%s tier=%s seed=%d evaluations=%d distinct_nontrivial=%d wall=%.1fs violations=%d' % (
        pid, tier, vseed, ev['coverage']['evaluations'], len(nontriv), time.time() - t0, len(violations)))
    if violations:
        for sub, path in violations:
            print('VIOLATION property=%s replay=%s' % (pid, path))
        return 1
    return 0
