"""Running the penman command: in-process (penman.__main__.main with patched argv/stdin/stdout) and as a subprocess."""
import io
import os
import subprocess
import sys


def run_inprocess(argv, stdin_text=''):
    """-> (exit_code, stdout, stderr).  exit_code None means main() returned without sys.exit."""
    import importlib
    import logging
    cli = importlib.import_module('penman.__main__')
    old = sys.argv, sys.stdin, sys.stdout, sys.stderr
    out, err = io.StringIO(), io.StringIO()
    lg = logging.getLogger('penman')
    level = lg.level
    code = None
    verbose = any(a in ('-v', '-vv', '-vvv', '--verbose') for a in argv)
    disabled = logging.root.manager.disable
    sink = None
    if verbose:
        # let the records through (the harness switches logging off globally): they are formatted and dropped
        class _Sink(logging.Handler):
            def emit(self, record):
                try:
                    record.getMessage()
                except Exception:
                    pass
        sink = _Sink()
        logging.root.addHandler(sink)
        logging.disable(logging.NOTSET)
    try:
        sys.argv = ['penman'] + list(argv)
        sys.stdin = io.StringIO(stdin_text)
        sys.stdout, sys.stderr = out, err
        try:
            cli.main()
        except SystemExit as e:
            code = e.code
    finally:
        sys.argv, sys.stdin, sys.stdout, sys.stderr = old
        lg.setLevel(level)
        if sink is not None:
            logging.root.removeHandler(sink)
            logging.disable(disabled)
    if code is None:
        code = 0
    if isinstance(code, int) and not isinstance(code, bool):
        code &= 0xFF          # what the operating system keeps of sys.exit(n)
    return code, out.getvalue(), err.getvalue()


def run_subprocess(argv, stdin_text='', hashseed='0', timeout=120):
    repo = os.environ.get('PV_REPO', '/repo')
    env = dict(os.environ, PYTHONPATH=repo, PYTHONHASHSEED=str(hashseed), PYTHONIOENCODING='utf-8', PYTHONDONTWRITEBYTECODE='1')
    try:
        p = subprocess.run([sys.executable, '-m', 'penman'] + list(argv), input=stdin_text.encode('utf-8'), env=env,
                           stdout=subprocess.PIPE, stderr=subprocess.PIPE, timeout=timeout, cwd=repo)
    except subprocess.TimeoutExpired:
        return None          # a time budget hit is inconclusive, never a violation
    return p.returncode, p.stdout.decode('utf-8'), p.stderr.decode('utf-8', 'replace')


def write_inputs(dirpath, texts, prefix='in'):
    paths = []
    for i, tx in enumerate(texts):
        p = os.path.join(dirpath, '%s%d.txt' % (prefix, i))
        with open(p, 'w', encoding='utf-8', newline='') as fh:
            fh.write(tx)
        paths.append(p)
    return paths
