"""R-graph: list-of-triples graph model, content comparison, JSON codecs for graphs and markers."""
from collections import Counter

from pv.ref.role import roles_for


def jtriples(ts):
    return [list(t) for t in ts]


def ttriples(js):
    return [tuple(t) for t in js]


def variables(triples, top=None):
    vs = {t[0] for t in triples}
    if top is not None:
        vs.add(top)
    return vs


def _const(t):
    return None if t is None else str(t)


def norm_triples(triples, vs, R):
    """Multiset of triples up to the model's single deinversion of inverted roles on edges; constants by written form."""
    out = Counter()
    for s, r, t in triples:
        if r != ':instance' and t in vs and R.inverted(r) and not R.noop:
            s, r, t = t, r[:-3], s
        if t in vs and r != ':instance':
            out[(s, r, t, 'edge')] += 1
        else:
            out[(s, r, _const(t), 'attr' if r != ':instance' else 'inst')] += 1
    return out


def content_diff(triples_a, top_a, triples_b, top_b, spec, explicit_top_a=None, decoded_b=True):
    """'' if graph b has the content of graph a (same top, variables, triples up to deinversion), else a description.
    b is a freshly decoded graph unless decoded_b=False: decoding deinverts every inverted edge (documented reading, C04)."""
    R = roles_for(spec)
    va = variables(triples_a, explicit_top_a)
    vb = variables(triples_b, None)
    if top_a != top_b:
        return 'top %r became %r' % (top_a, top_b)
    if va != vb:
        return 'variables %r became %r' % (sorted(map(str, va)), sorted(map(str, vb)))
    if decoded_b and not R.noop:
        for s_, r_, t_ in triples_b:
            if r_ != ':instance' and t_ in vb and R.inverted(r_):
                return 'decoded graph keeps the inverted role on the edge %r' % ((s_, r_, t_),)
    na, nb = norm_triples(triples_a, va, R), norm_triples(triples_b, vb, R)
    if na != nb:
        lost = list((na - nb).elements())
        extra = list((nb - na).elements())
        return 'lost %r, unexpected %r' % (lost[:4], extra[:4])
    return ''


def weakly_connected_from(triples, top, vs=None):
    """Set of variables weakly connected to *top*.  vs = the graph's variables (sources plus an explicit top);
    an edge is a non-instance triple whose target is a variable."""
    if vs is None:
        vs = {t[0] for t in triples} | {top}
    adj = {}
    for s, r, t in triples:
        if r != ':instance' and t in vs:
            adj.setdefault(s, set()).add(t)
            adj.setdefault(t, set()).add(s)
    seen = set()
    todo = [top]
    while todo:
        v = todo.pop()
        if v in seen:
            continue
        seen.add(v)
        todo.extend(adj.get(v, ()))
    return seen


# ---- markers <-> JSON ---------------------------------------------------------------------------------------

def marker_to_json(m):
    from penman.layout import Pop, Push
    from penman.surface import Alignment, RoleAlignment
    if isinstance(m, Push):
        return ['push', m.variable]
    if isinstance(m, Pop):
        return ['pop']
    if isinstance(m, RoleAlignment):
        return ['raln', m.prefix, list(m.indices)]
    if isinstance(m, Alignment):
        return ['aln', m.prefix, list(m.indices)]
    return ['other', repr(m)]


def marker_from_json(j):
    from penman.layout import POP, Push
    from penman.surface import Alignment, RoleAlignment
    k = j[0]
    if k == 'push':
        return Push(j[1])
    if k == 'pop':
        return POP
    if k == 'raln':
        return RoleAlignment(tuple(j[2]), prefix=j[1])
    if k == 'aln':
        return Alignment(tuple(j[2]), prefix=j[1])
    raise ValueError(j)


def graph_to_json(g):
    return {'triples': jtriples(g.triples), 'top': g._top,
            'epi': [[list(t), [marker_to_json(m) for m in ms]] for t, ms in g.epidata.items()],
            'meta': dict(g.metadata)}


def graph_from_json(j):
    from penman.graph import Graph
    epi = {tuple(t): [marker_from_json(m) for m in ms] for t, ms in j.get('epi', [])}
    return Graph(ttriples(j['triples']), top=j.get('top'), epidata=epi, metadata=j.get('meta') or {})


def snapshot(g):
    """Deep by-value snapshot of a Graph (for purity checks); epidata key order is not part of it."""
    return (list(g.triples), g._top,
            sorted(((t, [marker_to_json(m) for m in ms]) for t, ms in g.epidata.items()), key=repr),
            sorted(g.metadata.items()))
