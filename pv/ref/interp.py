"""R-interp: reference interpretation of a tree (docs/structures.rst, docs/notation.rst, layout.interpret docstring).

Reading of a node (var, branches), depth first:
  * one instance triple (var, :instance, concept); if no "/" branch is written, a synthetic one with concept
    None comes *first* among the node's triples, otherwise it sits where the "/" branch was written;
  * one triple per other branch, in order; a nested node contributes its own triples right after the triple
    of the branch that opens it;
  * an inverted role (ends in "-of", not defined by the model) whose target is a nested node or the variable
    of some node of the tree is deinverted once with source and target swapped -- never under the no-op
    model; on a constant it stays as written;
  * alignment suffixes (~...) are split off roles and atomic targets (after the closing quote for strings).

Besides the graph content it records the *layout facts* C14 speaks about: for every triple the variable of
the node whose branch list wrote it, the variable of the nested node the branch opened (if any), and whether
the text wrote it inverted (from its target's node).
"""
from pv.ref.role import roles_for


def is_atom(x):
    return x is None or isinstance(x, (str, int, float))


def split_role(role):
    """-> (role, alignment text or None)"""
    if role == '/':
        return ':instance', None
    i = role.find('~')
    if i < 0:
        return role, None
    return role[:i], role[i + 1:]


def split_atom(atom):
    """-> (atom, alignment text or None); string-aware"""
    if not isinstance(atom, str) or '~' not in atom:
        return atom, None
    if atom.startswith('"'):
        q = atom.rfind('"')
        if q + 1 < len(atom) and q > 0 and atom[q + 1] == '~':
            return atom[:q + 1], atom[q + 2:]
        if q + 1 < len(atom):
            # text after the closing quote that does not start with "~": not produced by the grammar
            return atom[:q + 1], atom[q + 1:].lstrip('~')
        return atom, None
    i = atom.find('~')
    return atom[:i], atom[i + 1:]


def parse_alignment(text):
    """'e.2,3' -> (prefix, indices)"""
    prefix = None
    s = text
    if s and s[0].isalpha():
        n = 2 if len(s) > 1 and s[1] == '.' else 1
        prefix, s = s[:n], s[n:]
    return prefix, tuple(int(x) for x in s.split(','))


def node_vars(node):
    """variables of all nodes of the tree (empty nodes have none)"""
    out = []
    stack = [node]
    while stack:
        var, branches = stack.pop()
        if var is not None:
            out.append(var)
        for _, tgt in reversed(branches):
            if not is_atom(tgt):
                stack.append(tgt)
    return out


class Reading:
    __slots__ = ('top', 'triples', 'facts', 'variables')


def interpret(node, spec):
    """node: (var, [(role, target), ...]) nested tuples/lists.  -> Reading
    facts[i] = dict(ctx, pushed, inverted, role_aln, tgt_aln) for triples[i]."""
    R = roles_for(spec)
    variables = set(node_vars(node))
    triples = []
    facts = []

    def walk(nd):
        var, branches = nd
        start = len(triples)
        has_concept = False
        for role, tgt in branches:
            r, raln = split_role(role)
            if r == ':instance':
                has_concept = True
            if is_atom(tgt):
                a, taln = split_atom(tgt)
                tr = (var, r, a)
                inv = False
                if R.inverted(r) and a in variables and not R.noop:
                    tr = (a, r[:-3], var)
                    inv = True
                triples.append(tr)
                facts.append(dict(ctx=var, pushed=None, inverted=inv, role_aln=raln, tgt_aln=taln))
            else:
                child = tgt[0]
                tr = (var, r, child)
                inv = False
                if R.inverted(r) and not R.noop:
                    tr = (child, r[:-3], var)
                    inv = True
                triples.append(tr)
                facts.append(dict(ctx=var, pushed=child, inverted=inv, role_aln=raln, tgt_aln=None))
                walk(tgt)
        if not has_concept:
            triples.insert(start, (var, ':instance', None))
            facts.insert(start, dict(ctx=var, pushed=None, inverted=False, role_aln=None, tgt_aln=None))

    walk(node)
    rd = Reading()
    rd.top = node[0]
    rd.triples = triples
    rd.facts = facts
    rd.variables = variables
    return rd


def wellformed(node, spec):
    """The precondition C02/C03/C05/C10/C11/C12/C14/C20 state: None if well-formed, else the reason."""
    R = roles_for(spec)
    vs = node_vars(node)
    if node[0] is None:
        return 'empty top node'
    if len(set(vs)) != len(vs):
        return 'variable defined twice'
    stack = [node]
    while stack:
        var, branches = stack.pop()
        if var is None or var == '':
            return 'empty node'
        nconcept = 0
        for role, tgt in branches:
            r, _ = split_role(role)
            if role == '/':
                nconcept += 1
                continue
            if r == ':instance':
                return 'explicit :instance role'
            if not is_atom(tgt):
                if tgt[0] is None:
                    return 'empty nested node'
                if not R.is_canonical_inversion(r):
                    return 'edge role not in canonical inversion form'
                stack.append(tgt)
            else:
                a, _ = split_atom(tgt)
                if a in vs:
                    if not R.is_canonical_inversion(r):
                        return 'edge role not in canonical inversion form'
                    if a == var and R.inverted(r):
                        return 'inverted self-loop'
        if nconcept > 1:
            return 'two concepts'
    rd = interpret(node, spec)
    if len(set(rd.triples)) != len(rd.triples):
        return 'duplicate triples'
    for s, r, t in rd.triples:
        if s not in rd.variables:
            return 'source is not a node'
    return None


def to_node(j):
    """JSON tree (nested lists) -> nested tuples with branch lists, the shape penman.tree uses."""
    var, branches = j
    return (var, [(r, t if is_atom(t) else to_node(t)) for r, t in branches])


def to_json(node):
    var, branches = node
    return [var, [[r, t if is_atom(t) else to_json(t)] for r, t in branches]]
