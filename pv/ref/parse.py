"""R-parse: iterative push-down recogniser of the documented grammar over R-lex tokens.

  Input <- Comment* Node
  Node  <- '(' ')'  |  '(' Symbol ('/' (Atom Alignment?)?)? Rel* ')'
  Rel   <- Role Alignment? ( Node | Atom Alignment? | <nothing, only before a Role or ')'> )
  Atom  <- Symbol | String

(docs/notation.rst PEG plus the robustness extensions of docs/serialization.rst "Allowed but unconventional":
empty node, missing concept, missing target.)  Returns the tree, or the position of the first token at which the
grammar fails -- the end of the last token when input runs out, (0, 0) when there is no token at all.
parse = first graph, the rest is ignored; iterparse = repeat while the next token is a COMMENT or '('.

Metadata (docs/api: "# ::key value ::key2 value2"): every "::"-introduced segment of a comment line contributes
key = text up to the first space, value = the rest without trailing whitespace; later lines and later segments win.
"""
from pv.ref import lex as rlex


class Reject(Exception):
    def __init__(self, lineno, offset):
        Exception.__init__(self, lineno, offset)
        self.lineno, self.offset = lineno, offset


class AmbiguousMeta(dict):
    """metadata read from a comment whose meaning the documentation does not fix"""


def _eof(toks):
    if not toks:
        return Reject(0, 0)
    t = toks[-1]
    return Reject(t[2], t[3] + len(t[1]))


def comment_metadata(text, meta):
    """Returns True when the line is outside what the documentation fixes (":::" or the same key twice on one line:
    scanning from the left and from the right then disagree); callers do not compare metadata for such input."""
    segs = text.split('::')
    ambiguous = ':::' in text
    seen = set()
    for seg in segs[1:]:
        seg = seg.rstrip()
        key, _, val = seg.partition(' ')
        if key in seen:
            ambiguous = True
        seen.add(key)
        meta[key] = val
    return ambiguous


def recognise_one(toks, pos):
    """-> (node, metadata, newpos) or raises Reject"""
    n = len(toks)
    meta = {}

    def tok(p):
        if p >= n:
            raise _eof(toks)
        return toks[p]

    while tok(pos)[0] == 'COMMENT':
        if comment_metadata(tok(pos)[1], meta):
            meta = AmbiguousMeta(meta)
        pos += 1
    stack = []   # frames [var, branches, pending_role]
    state = 'NODE'
    while True:
        t = tok(pos)
        typ = t[0]
        if state == 'NODE':
            if typ != 'LPAREN':
                raise Reject(t[2], t[3])
            stack.append([None, [], None]); pos += 1; state = 'VAR'
        elif state == 'VAR':
            if typ == 'RPAREN':
                state = 'CLOSE'
            elif typ == 'SYMBOL':
                stack[-1][0] = t[1]; pos += 1; state = 'AFTERVAR'
            else:
                raise Reject(t[2], t[3])
        elif state == 'AFTERVAR':
            if typ == 'SLASH':
                pos += 1; state = 'CONCEPT'
            else:
                state = 'EDGES'
        elif state == 'CONCEPT':
            if typ in ('SYMBOL', 'STRING'):
                c = t[1]; pos += 1
                if tok(pos)[0] == 'ALIGNMENT':
                    c += tok(pos)[1]; pos += 1
                stack[-1][1].append(('/', c))
            else:
                stack[-1][1].append(('/', None))
            state = 'EDGES'
        elif state == 'EDGES':
            if typ == 'RPAREN':
                state = 'CLOSE'
            elif typ == 'ROLE':
                r = t[1]; pos += 1
                if tok(pos)[0] == 'ALIGNMENT':
                    r += tok(pos)[1]; pos += 1
                stack[-1][2] = r; state = 'TARGET'
            else:
                raise Reject(t[2], t[3])
        elif state == 'TARGET':
            if typ in ('SYMBOL', 'STRING'):
                a = t[1]; pos += 1
                if tok(pos)[0] == 'ALIGNMENT':
                    a += tok(pos)[1]; pos += 1
                f = stack[-1]; f[1].append((f[2], a)); f[2] = None; state = 'EDGES'
            elif typ == 'LPAREN':
                state = 'NODE'
            elif typ in ('ROLE', 'RPAREN'):
                f = stack[-1]; f[1].append((f[2], None)); f[2] = None; state = 'EDGES'
            else:
                raise Reject(t[2], t[3])
        elif state == 'CLOSE':
            pos += 1
            var, br, _ = stack.pop()
            node = (var, br)
            if not stack:
                return node, meta, pos
            f = stack[-1]; f[1].append((f[2], node)); f[2] = None; state = 'EDGES'


def ref_parse(text_or_lines):
    toks = rlex.scan(text_or_lines)
    node, meta, _ = recognise_one(toks, 0)
    return node, meta


def ref_iterparse(text_or_lines):
    """-> (list of (node, meta) recognised before any error, Reject or None)"""
    toks = rlex.scan(text_or_lines)
    pos = 0
    out = []
    while pos < len(toks) and toks[pos][0] in ('COMMENT', 'LPAREN'):
        try:
            node, meta, pos = recognise_one(toks, pos)
        except Reject as r:
            return out, r
        out.append((node, meta))
    return out, None


# ---- triple conjunction ------------------------------------------------------------------------------------------
# Grammar over triple-mode tokens (a SYMBOL may contain ',' and '^'; documented through docstrings, code comments
# and test literals only -- "specification by example"):
#   Conj   <- Triple (Caret Triple)*     anything after a Triple that is not a caret-initial SYMBOL ends the parse
#   Triple <- SYMBOL '(' SYMBOL Rest ')'
#   the first SYMBOL inside the parentheses is split at its first comma: Source [',' Tail]
#     Tail non-empty            -> target = Tail, next must be ')'
#     comma present, Tail empty -> optional SYMBOL|STRING target
#     no comma                  -> next: ')' -> no target | SYMBOL ',' -> optional SYMBOL|STRING target
#                                  | SYMBOL ',x' -> target x | other SYMBOL -> reject at that token
#   Caret: a SYMBOL '^' alone, or a '^' glued in front of the next role symbol (stripped)

def ref_parse_triples(text):
    toks = rlex.scan(text, 'triple')
    n = len(toks)
    pos = 0

    def tok(p):
        if p >= n:
            raise _eof(toks)
        return toks[p]

    def expect(p, *types):
        t = tok(p)
        if t[0] not in types:
            raise Reject(t[2], t[3])
        return t

    triples = []
    strip = False
    while True:
        role = expect(pos, 'SYMBOL')[1]; pos += 1
        if strip and role.startswith('^'):
            role = role[1:]
        if not role.startswith(':'):
            role = ':' + role
        expect(pos, 'LPAREN'); pos += 1
        first = expect(pos, 'SYMBOL')[1]; pos += 1
        source, comma, tail = first.partition(',')
        target = None
        if tail:
            target = tail
        elif comma:
            if pos < n and toks[pos][0] in ('SYMBOL', 'STRING'):
                target = toks[pos][1]; pos += 1
        else:
            if pos < n and toks[pos][0] == 'SYMBOL':
                t = toks[pos]
                if t[1] == ',':
                    pos += 1
                    if pos < n and toks[pos][0] in ('SYMBOL', 'STRING'):
                        target = toks[pos][1]; pos += 1
                elif t[1].startswith(','):
                    target = t[1][1:]; pos += 1
                else:
                    raise Reject(t[2], t[3])
        expect(pos, 'RPAREN'); pos += 1
        triples.append((source, role, target))
        if pos < n and toks[pos][0] == 'SYMBOL' and toks[pos][1].startswith('^'):
            if toks[pos][1] == '^':
                strip = False; pos += 1
            else:
                strip = True
        else:
            return triples
