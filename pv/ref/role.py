"""R-role: reference role algebra, and model tables.

A *table* is plain data: {'roles': [pattern, ...], 'normalizations': {...}, 'reifications': [[role, concept,
source_role, target_role], ...], 'top_role': ':TOP', 'concept_role': ':instance', 'noop': bool}.
Named tables (default, amr, noop, mini) are read from the repository's *data* (penman.models.amr.roles etc.
are tables, not logic); custom tables come from the generators.

Reference definitions (docs/api/penman.model.rst, Model docstrings):
  defined(r)   some role pattern of the table (or the top / concept role) matches r completely
  inverted(r)  r ends in "-of" and is not defined
  invert(r)    strip one "-of" if inverted, else append "-of"
  canonical(r) leading colon; the double-inversion fixed point that has the same "-of" parity as r in r's
               chain base, base-of, base-of-of, ...; then one normalisation lookup.
"""
import re


def build_table(spec):
    name = spec.get('name', 'custom')
    if name == 'default':
        t = dict(roles=[], normalizations={}, reifications=[], noop=False)
    elif name == 'noop':
        t = dict(roles=[], normalizations={}, reifications=[], noop=True)
    elif name == 'amr':
        from penman.models import amr
        t = dict(roles=list(amr.roles), normalizations=dict(amr.normalizations),
                 reifications=[list(r) for r in amr.reifications], noop=False)
    elif name == 'mini':
        t = dict(roles=[':ARG0', ':ARG1', ':accompanier', ':domain', ':consist-of', ':mod', ':op[0-9]+'],
                 normalizations={':mod-of': ':domain', ':domain-of': ':mod'},
                 reifications=[[':accompanier', 'accompany-01', ':ARG0', ':ARG1'],
                               [':mod', 'have-mod-91', ':ARG1', ':ARG2']], noop=False)
    else:
        t = dict(roles=list(spec.get('roles', [])), normalizations=dict(spec.get('normalizations', {})),
                 reifications=[list(r) for r in spec.get('reifications', [])], noop=bool(spec.get('noop', False)))
    t['top_role'] = spec.get('top_role', ':TOP')
    t['concept_role'] = spec.get('concept_role', ':instance')
    t['name'] = name
    return t


_MODEL_CACHE = {}


def build_model(spec, fresh=False):
    """The penman Model object for a spec (the object under test).  fresh=True builds a new, short-lived object for
    default and custom specs (object identity must not matter, and dead models must not leave state behind)."""
    import json
    key = json.dumps(spec, sort_keys=True)
    if fresh and spec.get('name', 'custom') in ('default', 'custom', 'mini'):
        _MODEL_CACHE.pop(key, None)
    m = _MODEL_CACHE.get(key)
    if m is not None:
        return m
    name = spec.get('name', 'custom')
    from penman.model import Model
    if spec.get('lenient_roles'):
        # a model written as a subclass that overrides the documented query "does the model define this role?"
        # (case-insensitively here); Model.errors() is specified in terms of that query
        base = build_table(dict((k, v) for k, v in spec.items() if k != 'lenient_roles'))

        class CaseInsensitiveRoles(Model):
            def has_role(self, role):
                return super().has_role(role) or super().has_role(role.lower())
        m = CaseInsensitiveRoles(top_role=base['top_role'], concept_role=base['concept_role'], roles={r: {} for r in base['roles']},
                                 normalizations=base['normalizations'], reifications=[tuple(r) for r in base['reifications']])
    elif name == 'default':
        m = Model()
    elif name == 'amr':
        from penman.models.amr import model as m
    elif name == 'noop' and spec.get('by_override'):
        # a no-op model written by a user the documented way: a Model subclass that overrides the query "is this role
        # inverted?" (never).  Reading a text with it must leave every role as written, exactly like penman.models.noop.
        class HandWrittenNoOp(Model):
            def is_role_inverted(self, role):
                return False
        m = HandWrittenNoOp()
    elif name == 'noop' and 'top_role' not in spec and 'concept_role' not in spec:
        from penman.models.noop import model as m
    else:
        t = build_table(spec)
        kw = dict(top_role=t['top_role'], concept_role=t['concept_role'],
                  roles={r: {} for r in t['roles']}, normalizations=t['normalizations'],
                  reifications=(tuple(r) for r in t['reifications']))       # documented as Iterable: a one-shot iterator will do
        if t['noop']:
            from penman.models.noop import NoOpModel
            m = NoOpModel(**kw)
        else:
            m = Model(**kw)
        # the tables handed to the constructor belong to the caller: changing them afterwards must not change the model
        for r in list(kw['roles']):
            kw['normalizations'][r] = ':scribbled'
            kw['normalizations'][r + '-of'] = ':scribbled'
        for k_ in list(t['normalizations']):
            del kw['normalizations'][k_]
        kw['roles'].clear()
    if not fresh:
        _MODEL_CACHE[key] = m
    return m


class Roles:
    """Role algebra over a table."""

    def __init__(self, table):
        self.table = table
        # top_role/concept_role are used as patterns by the implementation too; the generators only use literal ones
        self.patterns = [re.compile(p) for p in list(table['roles']) + [table['top_role'], table['concept_role']]]
        self.norm = table['normalizations']
        self.noop = table['noop']
        self._dcache = {}

    def defined(self, r):
        d = self._dcache.get(r)
        if d is None:
            d = any(p.fullmatch(r) is not None for p in self.patterns)
            if len(self._dcache) < 50000:
                self._dcache[r] = d
        return d

    def has_role(self, r):
        """defined directly or as a single inversion (Model.has_role docstring)."""
        return self.defined(r) or (r.endswith('-of') and self.defined(r[:-3]))

    def inverted(self, r):
        return r.endswith('-of') and not self.defined(r)

    def invert(self, r):
        return r[:-3] if self.inverted(r) else r + '-of'

    def is_canonical_inversion(self, r):
        """r is what inversion-canonicalisation returns for r: a defined role, or a double-inversion fixed point"""
        return self.defined(r) or self.invert(self.invert(r)) == r

    def chain_base(self, r):
        b = r
        k = 0
        while b.endswith('-of'):
            b = b[:-3]
            k += 1
        return b, k

    def canonical_inversion_candidates(self, r):
        """All double-inversion fixed points in r's chain with r's parity (normally exactly one)."""
        base, k = self.chain_base(r)
        out = []
        for i in range(k % 2, k + 5, 2):
            c = base + '-of' * i
            if self.is_canonical_inversion(c):
                out.append(c)
        return out

    def canonical(self, r):
        """-> canonical role, or None when the table makes the answer ambiguous (then nothing is asserted)."""
        if r != '/' and not r.startswith(':'):
            r = ':' + r
        if self.defined(r):
            c = r
        else:
            cands = self.canonical_inversion_candidates(r)
            if len(cands) != 1:
                return None
            c = cands[0]
        return self.norm.get(c, c)

    def deinvert_triple(self, triple):
        s, r, t = triple
        if self.noop or not self.inverted(r):
            return triple
        return (t, r[:-3], s)

    def invert_triple(self, triple):
        s, r, t = triple
        return (t, self.invert(r), s)

    # sort keys (Model.alphanumeric_order / canonical_order docstrings: numeric suffix numerically; inverted last)
    def alphanumeric_key(self, r):
        i = len(r)
        while i > 0 and r[i - 1] in '0123456789':
            i -= 1
        # the name part must be non-empty and end in a non-digit, which is automatic here when i > 0
        if i == len(r) or i == 0:
            return (r, 0)
        return (r[:i], int(r[i:]))

    def canonical_key(self, r):
        return (self.inverted(r), self.alphanumeric_key(r))


_ROLES_CACHE = {}


def roles_for(spec):
    import json
    key = json.dumps(spec, sort_keys=True)
    r = _ROLES_CACHE.get(key)
    if r is None:
        r = _ROLES_CACHE[key] = Roles(build_table(spec))
    return r
