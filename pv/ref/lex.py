"""R-lex: hand-written reference scanner, written from docs/notation.rst (lexical productions).

    Symbol    <- NameChar+                 NameChar <- ![ \\n\\t\\r\\f\\v"()/:~] .
    Role      <- ':' NameChar*
    Alignment <- '~' ([a-zA-Z] '.'?)? Digit+ (',' Digit+)*
    String    <- '"' (!'"' (StrEscape / StrChar))* '"'
    comment   <- '#' ... end of line       (only where a token may start)
    anything else that is not an ASCII blank is a one-character UNEXPECTED token

Maximal munch, leftmost alternative; no regular expressions.  A line ends at LF, CRLF or CR
(universal newlines) and nowhere else.  Inside a string every character except the end of the
line is content (the implementation is more liberal than the StrChar production for CR/VT/FF;
C08 speaks of blanks "outside strings and comments", so blanks inside them are content).
mode 'triple' is the lexical grammar of the triple conjunction: no ROLE, SLASH or ALIGNMENT.
"""

BLANK = ' \t\r\n\v\f'
NOT_NAME = BLANK + '"()/:~'
DIGITS = '0123456789'
LETTERS = 'abcdefghijklmnopqrstuvwxyzABCDEFGHIJKLMNOPQRSTUVWXYZ'


def split_lines(text):
    """Lines under the LF / CRLF / CR definition (terminators removed)."""
    lines = []
    cur = []
    i, n = 0, len(text)
    while i < n:
        c = text[i]
        if c == '\r':
            lines.append(''.join(cur)); cur = []
            if i + 1 < n and text[i + 1] == '\n':
                i += 1
        elif c == '\n':
            lines.append(''.join(cur)); cur = []
        else:
            cur.append(c)
        i += 1
    lines.append(''.join(cur))
    return lines


def _digits(line, i):
    j = i
    n = len(line)
    while j < n and line[j] in DIGITS:
        j += 1
    return j


def _alignment_end(line, i):
    """line[i] == '~'; return end index of the alignment token or None."""
    n = len(line)
    j = i + 1
    k = None
    if j < n and line[j] in LETTERS:
        p = j + 1
        if p < n and line[p] == '.':
            e = _digits(line, p + 1)
            if e > p + 1:
                k = e
        if k is None:
            e = _digits(line, p)
            if e > p:
                k = e
    if k is None:
        e = _digits(line, j)
        if e > j:
            k = e
    if k is None:
        return None
    while k < n and line[k] == ',':
        e = _digits(line, k + 1)
        if e > k + 1:
            k = e
        else:
            break
    return k


def _string_end(line, i):
    """line[i] == '"'; index of the closing quote or None if the string does not close on this line."""
    n = len(line)
    j = i + 1
    while j < n:
        d = line[j]
        if d == '\\':
            if j + 1 < n and line[j + 1] != '\n':
                j += 2
                continue
            return None
        if d == '"':
            return j
        j += 1
    return None


def scan_line(line, mode='graph'):
    """-> list of (type, text, offset) for one line (a trailing terminator, if present, is blank)."""
    out = []
    i, n = 0, len(line)
    while i < n:
        c = line[i]
        if c in BLANK:
            i += 1
        elif c == '#':
            j = line.find('\n', i)
            if j < 0:
                j = n
            out.append(('COMMENT', line[i:j], i))
            i = j
        elif c == '"':
            e = _string_end(line, i)
            if e is None:
                out.append(('UNEXPECTED', c, i)); i += 1
            else:
                out.append(('STRING', line[i:e + 1], i)); i = e + 1
        elif c == '(':
            out.append(('LPAREN', c, i)); i += 1
        elif c == ')':
            out.append(('RPAREN', c, i)); i += 1
        elif c in '/:~':
            if mode != 'graph':
                out.append(('UNEXPECTED', c, i)); i += 1
            elif c == '/':
                out.append(('SLASH', c, i)); i += 1
            elif c == ':':
                j = i + 1
                while j < n and line[j] not in NOT_NAME:
                    j += 1
                out.append(('ROLE', line[i:j], i)); i = j
            else:
                k = _alignment_end(line, i)
                if k is None:
                    out.append(('UNEXPECTED', c, i)); i += 1
                else:
                    out.append(('ALIGNMENT', line[i:k], i)); i = k
        else:
            j = i
            while j < n and line[j] not in NOT_NAME:
                j += 1
            out.append(('SYMBOL', line[i:j], i)); i = j
    return out


def scan(lines, mode='graph'):
    """-> list of (type, text, lineno, offset); *lines* is a str or a list of lines."""
    if isinstance(lines, str):
        lines = split_lines(lines)
    toks = []
    for ln, line in enumerate(lines, 1):
        for typ, text, off in scan_line(line, mode):
            toks.append((typ, text, ln, off))
    return toks
