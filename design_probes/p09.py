import io, os, logging, collections, tempfile, shutil
logging.disable(logging.CRITICAL)
from hypothesis import given, settings, seed, HealthCheck, strategies as st
import penman
from penman.exceptions import DecodeError
from penman.tree import Tree
import sys; sys.path.insert(0, '/verif/design_probes')
from gen import trees
print(penman.__file__)
metakey = st.text(st.sampled_from('abcxyz019-_.'), min_size=0, max_size=4)
metaval = st.text(st.one_of(st.sampled_from('ab ;()"#: \x85\x0b\x0c\x1c '), st.characters(exclude_categories=['Cs'], exclude_characters='\n\r')), max_size=8).filter(lambda v: '::' not in v and v==v.strip() and not v.startswith(':'))
metadata = st.dictionaries(metakey, metaval, max_size=3)
TMP = tempfile.mkdtemp()
fails = collections.Counter(); ex={}
def rec(k,e):
    fails[k]+=1
    if k not in ex or len(repr(e))<len(repr(ex[k])): ex[k]=e
def snap(gs):
    return [(g.top, g.triples, sorted((repr(k), repr(v)) for k,v in g.epidata.items()), g.metadata) for g in gs]
def outcome(f):
    try: return ('ok', snap(f()))
    except DecodeError as e: return ('rej', e.lineno, e.offset)
    except Exception as e: return ('exc', type(e).__name__, str(e)[:60])
import re
LB = re.compile(r'(\r\n|\r|\n)')
def lines_of(text, keep):
    parts = LB.split(text); out=[]
    for i in range(0, len(parts), 2):
        body = parts[i]; term = parts[i+1] if i+1 < len(parts) else ''
        out.append(body + (term if keep else ''))
    return out
n=[0]
@seed(int(os.environ.get('S','1')))
@settings(max_examples=int(os.environ.get('N','1500')), deadline=None, database=None, suppress_health_check=list(HealthCheck))
@given(st.lists(st.tuples(trees(max_nodes=4), metadata), max_size=4), st.sampled_from(['\n','\r\n','\r']), st.sampled_from(['\n\n','\n',' ']), st.sampled_from([None,-1,0,3]))
def run(items, term, sep, indent):
    n[0]+=1
    gs = []
    for nd, md in items:
        g = penman.interpret(Tree(nd)); g.metadata.update(md); gs.append(g)
    texts = [penman.encode(g, indent=indent) for g in gs]
    text = sep.join(texts)
    text = text.replace('\n', term)
    ref = outcome(lambda: penman.loads(text))
    outs = {
      'lines': outcome(lambda: list(penman.iterdecode(lines_of(text, False)))),
      'lines+t': outcome(lambda: list(penman.iterdecode(lines_of(text, True)))),
      'stringio': outcome(lambda: penman.load(io.StringIO(text, newline=None))),
    }
    p = os.path.join(TMP, 'f.txt')
    with open(p, 'w', encoding='utf-8', newline='') as fh: fh.write(text)
    outs['file'] = outcome(lambda: penman.load(p, encoding='utf-8'))
    for k,v in outs.items():
        if v != ref: rec(('container', k), (text, ref, v))
    # dumps/loads
    if ref[0]=='ok':
        single = snap([penman.decode(t) for t in texts])
        if ref[1] != single: rec(('framing', sep), (text, single, ref[1]))
        if [x[3] for x in ref[1]] != [g.metadata for g in gs]: rec(('meta', sep), (text, [g.metadata for g in gs], [x[3] for x in ref[1]]))
    else:
        rec(('loads-fail', ref[0]), (text, ref))
run()
shutil.rmtree(TMP)
print(n, dict(fails))
for k,v in ex.items():
    print(k)
    for x in v: print('    ', repr(x)[:400])
