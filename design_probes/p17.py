import sys, hashlib, logging, random
logging.disable(logging.CRITICAL)
sys.path.insert(0, '/verif/design_probes')
import penman
from penman import layout, transform
from penman.tree import Tree
from penman.graph import Graph
from penman.models.amr import model as amr
from hypothesis import strategies as st, seed, given, settings, HealthCheck
from gen import trees
h = hashlib.sha256()
cases = []
@seed(1)
@settings(max_examples=400, deadline=None, database=None, suppress_health_check=list(HealthCheck))
@given(trees(), trees())
def collect(a, b): cases.append((a, b))
collect()
for a, b in cases:
    ga = layout.interpret(Tree(a), amr); gb = layout.interpret(Tree(b), amr)
    out = []
    u = ga | gb; d = ga - gb
    for g in (ga, u, d):
        out.append(repr((g.top, g.triples, list(map(repr, g.epidata.items())) if g is ga else sorted(map(repr, g.epidata.items())))))
        for f in (lambda g: transform.reify_edges(g, amr), lambda g: transform.dereify_edges(g, amr), transform.reify_attributes, lambda g: transform.indicate_branches(g, amr)):
            try:
                x = f(g); out.append(repr((x.top, x.triples)))
                try: out.append(penman.encode(x, model=amr))
                except Exception as e: out.append(type(e).__name__)
            except Exception as e: out.append(type(e).__name__)
        try: out.append(penman.format(layout.reconfigure(g, model=amr, key=amr.canonical_order)))
        except Exception as e: out.append(type(e).__name__)
        out.append(repr(sorted(map(repr, amr.errors(g).items()))) + repr(list(amr.errors(g))))
        out.append(repr(g.reentrancies()))
    h.update('\n'.join(out).encode())
print(h.hexdigest())
