import sys, logging, collections, os
logging.disable(logging.CRITICAL)
from hypothesis import given, settings, seed, HealthCheck, strategies as st
import penman
from penman import layout
from penman.tree import Tree, is_atomic
from penman.model import Model
from penman.models.amr import model as amr
from penman.models.noop import model as noop
from gen import trees
print(penman.__file__)
MODELS = {'default': Model(), 'amr': amr, 'noop': noop}

def normal(node):
    var, br = node
    out = []
    for r, t in br:
        if r == '/' and t is None: continue
        out.append((r, t if is_atomic(t) else normal(t)))
    return (var, out)

def wellformed(t, g, model):
    # distinct triples; no inverted self loop
    if len(set(g.triples)) != len(g.triples): return False
    return True

def noncanon(node, model):
    var, br = node
    for r, t in br:
        if r == '/': continue
        r0 = r.partition('~')[0]
        if model.invert_role(model.invert_role(r0)) != r0: return True
        if not is_atomic(t) and noncanon(t, model): return True
    return False

def has_inv_selfloop(node, model):
    var, br = node
    for r, t in br:
        r0 = r.partition('~')[0]
        if is_atomic(t):
            if t is not None and t.partition('~')[0] == var and model.is_role_inverted(r0): return True
        else:
            if has_inv_selfloop(t, model): return True
    return False

fails = collections.Counter(); examples = {}; n=[0,0]
@seed(int(os.environ.get('S','1')))
@settings(max_examples=int(os.environ.get('N','3000')), deadline=None, database=None, suppress_health_check=list(HealthCheck))
@given(trees(), st.sampled_from(sorted(MODELS)))
def run(node, mname):
    model = MODELS[mname]
    n[0]+=1
    t = Tree(node)
    try:
        g = layout.interpret(t, model)
    except Exception as e:
        k=('interp', type(e).__name__); fails[k]+=1; examples.setdefault(k,(node,mname,str(e))); return
    if not wellformed(t,g,model) or has_inv_selfloop(node, model) or noncanon(node, model): return
    n[1]+=1
    try:
        t2 = layout.configure(g, model=model)
    except Exception as e:
        k=('config', type(e).__name__, mname); fails[k]+=1; examples.setdefault(k,(node,mname,str(e))); return
    if t2.node != normal(node):
        k=('diff', mname); fails[k]+=1
        cur = examples.get(k)
        if cur is None or len(repr(node)) < len(repr(cur[0])): examples[k]=(node, mname, penman.format(t2, indent=None))
run()
print(n, dict(fails))
for k,v in examples.items():
    print(k); print('   in :', penman.format(Tree(v[0]), indent=None)); print('   out:', v[2])
