"""Bounded-exhaustive small-tree probe for C02/C03/C05/C14 (design probe)."""
import itertools, logging, collections, os, sys, multiprocessing as mp
logging.disable(logging.CRITICAL)
import penman
from penman import layout
from penman.tree import Tree, is_atomic
from penman.model import Model
VARS = ['a','b','c']
ROLES = [':r', ':r-of', ':s']
MAXB = int(os.environ.get('MAXB', '4'))
model = Model()
def gen_nodes(k, nvars_used, budget):
    """yield (node, next_var_index, remaining_budget) for node with var VARS[k]..."""
    # node var is VARS[nvars_used-1]; children take fresh vars
    pass
def trees():
    # recursive enumeration: state = (next fresh var idx, budget)
    def node(var_idx, fresh, budget):
        var = VARS[var_idx]
        for concept in (None, 'x'):
            head = [] if concept is None else [('/', concept)]
            for branches, fresh2, budget2 in branchlists(fresh, budget):
                yield (var, head + branches), fresh2, budget2
    def branchlists(fresh, budget):
        yield [], fresh, budget
        if budget == 0: return
        for role in ROLES:
            # const
            for rest, f2, b2 in branchlists(fresh, budget-1):
                yield [(role, 'k')] + rest, f2, b2
            # reference to any var (existing or not-yet-defined)
            for v in VARS:
                for rest, f2, b2 in branchlists(fresh, budget-1):
                    yield [(role, v)] + rest, f2, b2
            # nested new node
            if fresh < len(VARS):
                for child, f1, b1 in node(fresh, fresh+1, budget-1):
                    for rest, f2, b2 in branchlists(f1, b1):
                        yield [(role, child)] + rest, f2, b2
    for t, f, b in node(0, 1, MAXB):
        yield t, f
def norm(triples, variables):
    out=[]
    for s,r,t in triples:
        if r != ':instance' and t in variables and model.is_role_inverted(r):
            s,r,t = model.invert((s,r,t))
        out.append((s,r,None if t is None else str(t)))
    return sorted(out, key=repr)
def wf(node, nvars):
    # references must point to defined vars; triples distinct; no inverted self loop
    defined = set(VARS[:nvars])
    def refs_ok(nd):
        var, br = nd
        for r,t in br:
            if r == '/': continue
            if is_atomic(t):
                if t in VARS and t not in defined: return False
                if t == var and r.endswith('-of'): return False
            elif not refs_ok(t): return False
        return True
    return refs_ok(node)
def check(item):
    node, nvars = item
    if not wf(node, nvars): return None
    t = Tree(node)
    g = layout.interpret(t, model)
    if len(set(g.triples)) != len(g.triples): return None
    bad = []
    t2 = layout.configure(g, model=model)
    if t2.node != node: bad.append(('c02', penman.format(t, indent=None), penman.format(t2, indent=None)))
    nc = layout.node_contexts(g)
    if None in nc: bad.append(('c14-none', penman.format(t, indent=None), nc))
    for top in sorted(g.variables()):
        for strip in (False, True):
            h = penman.Graph(g.triples, top=g.top, epidata={} if strip else g.epidata)
            try:
                s = penman.encode(h, top=top, indent=None)
                g2 = penman.decode(s)
                if not (g2.top == top and g2.variables()==g.variables() and norm(g2.triples, g2.variables())==norm(g.triples, g.variables())):
                    bad.append(('c03', penman.format(t, indent=None), top, strip, s))
            except Exception as e:
                bad.append(('c03-exc', penman.format(t, indent=None), top, strip, repr(e)))
    return bad or ()
if __name__ == '__main__':
    print(penman.__file__)
    items = list(trees())
    print('enumerated', len(items))
    with mp.Pool(16) as pool:
        res = pool.map(check, items, chunksize=500)
    wfn = sum(1 for r in res if r is not None)
    cnt = collections.Counter(b[0] for r in res if r for b in r)
    print('well-formed', wfn, dict(cnt))
    shown = collections.Counter()
    for r in res:
        if r:
            for b in r:
                if shown[b[0]] < 3: shown[b[0]] += 1; print(b)
