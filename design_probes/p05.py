import sys, logging, collections, os, random
logging.disable(logging.CRITICAL)
from hypothesis import given, settings, seed, HealthCheck, strategies as st
import penman
from penman import layout
from penman.graph import Graph
from penman.tree import Tree, is_atomic
from penman.model import Model
from penman.models.amr import model as amr
from gen import trees
print(penman.__file__)
MODELS = {'default': Model(), 'amr': amr}
def norm(triples, variables, model):
    out=[]
    for s,r,t in triples:
        if r != ':instance' and t in variables and model.is_role_inverted(r):
            s,r,t = model.invert((s,r,t))
        out.append((s,r,None if t is None else str(t)))
    return sorted(out, key=repr)
def noncanon_roles(g, model):
    return any(model.invert_role(model.invert_role(r)) != r for _,r,_ in g.triples if r != ':instance')
fails = collections.Counter(); examples = {}; n=[0,0,0]
def rec(k, ex):
    fails[k]+=1
    cur=examples.get(k)
    if cur is None or len(repr(ex))<len(repr(cur)): examples[k]=ex
@seed(int(os.environ.get('S','1')))
@settings(max_examples=int(os.environ.get('N','3000')), deadline=None, database=None, suppress_health_check=list(HealthCheck))
@given(st.data())
def run(data):
    node = data.draw(trees())
    mname = data.draw(st.sampled_from(sorted(MODELS)))
    model = MODELS[mname]
    n[0]+=1
    t = Tree(node)
    g = layout.interpret(t, model)
    if len(set(g.triples)) != len(g.triples) or noncanon_roles(g, model): return
    n[1]+=1
    keyname = data.draw(st.sampled_from(['none','original','alphanumeric','canonical','random']))
    key = None if keyname=='none' else getattr(model, keyname+'_order')
    random.seed(data.draw(st.integers(0,100)))
    src = penman.format(t, indent=None)
    # reconfigure
    try:
        t2 = layout.reconfigure(g, model=model, key=key)
        g2 = layout.interpret(t2, model)
        if not (g2.top==g.top and g2.variables()==g.variables() and norm(g2.triples,g2.variables(),model)==norm(g.triples,g.variables(),model)):
            rec(('reconf-diff', keyname), (src, mname, penman.format(t2, indent=None)))
    except Exception as e:
        rec(('reconf-exc', type(e).__name__, keyname), (src, mname, str(e)))
    # rearrange
    af = data.draw(st.booleans())
    t3 = penman.parse(src)
    try:
        layout.rearrange(t3, key=key, attributes_first=af)
        g3 = layout.interpret(t3, model)
        if not (g3.top==g.top and g3.variables()==g.variables() and norm(g3.triples,g3.variables(),model)==norm(g.triples,g.variables(),model)):
            rec(('rearr-diff', keyname, af), (src, mname, penman.format(t3, indent=None)))
    except Exception as e:
        rec(('rearr-exc', type(e).__name__, keyname), (src, mname, str(e)))
run()
print(n, dict(fails))
for k,v in examples.items():
    print(k); print('   ', v)
