import re, itertools, collections
import penman
from penman.model import Model
from penman.models.amr import model as amr, roles as amr_roles
from penman.models.noop import model as noop
mini = Model.from_dict({'roles': {':ARG0':{}, ':ARG1':{}, ':accompanier':{}, ':domain':{}, ':consist-of':{}, ':mod':{}, ':op[0-9]+':{}}, 'normalizations': {':mod-of': ':domain', ':domain-of': ':mod'}, 'reifications': []})
MODELS = {'default': Model(), 'amr': amr, 'noop': noop, 'mini': mini}
bases = [':ARG0', ':ARG9', ':op1', ':op12', ':mod', ':domain', ':consist-of', ':consist', ':prep-on-behalf-of', ':prep-on-behalf', ':foo', ':', '', 'ARG0', 'mod', ':TOP', ':instance', ':x-of-y', ':of', ':-', ':wiki', ':conj-as-if', ':a.b', ':ARG10', '/']
fails = collections.Counter(); ex = {}
def rec(k, e):
    fails[k]+=1; ex.setdefault(k, e)
def ref_defined(model, role):
    pats = list(model.roles) + [model.top_role, model.concept_role]
    return any(re.fullmatch(p, role) for p in pats)
def ref_canon(model, role):
    if role != '/' and not role.startswith(':'): role = ':' + role
    k = 0; base = role
    while not ref_defined(model, base) and base.endswith('-of'):
        base = base[:-3]; k += 1
    r = base + ('-of' if k % 2 else '')
    return model.normalizations.get(r, r)
for mname, m in MODELS.items():
    for b in bases:
        for k in range(5):
            role = b + '-of'*k
            c = m.canonicalize_role(role)
            if m.canonicalize_role(c) != c: rec(('idem', mname), (role, c, m.canonicalize_role(c)))
            if role != '/' and not c.startswith(':'): rec(('colon', mname), (role, c))
            if c != ref_canon(m, role): rec(('refcanon', mname), (role, c, ref_canon(m, role)))
            if ref_defined(m, role) and m.is_role_inverted(role): rec(('definv', mname), role)
            if role.startswith(':') and c == role:  # canonical role
                i1 = m.invert_role(role); i2 = m.invert_role(i1)
                if i2 != role: rec(('invol', mname), (role, i1, i2))
                if m.is_role_inverted(i1) == m.is_role_inverted(role): rec(('flip', mname), (role, i1))
                t = ('a', role, 'b')
                if m.invert(t) != ('b', i1, 'a'): rec(('invert', mname), t)
                d = m.deinvert(t)
                if mname == 'noop':
                    if d != t: rec(('noop-deinv',), t)
                elif m.is_role_inverted(role):
                    if d != m.invert(t): rec(('deinv-inv', mname), t)
                else:
                    if d != t: rec(('deinv-id', mname), t)
print(dict(fails))
for k,v in ex.items(): print(k, v)
