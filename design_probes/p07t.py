import itertools, os, logging, collections, multiprocessing as mp
logging.disable(logging.CRITICAL)
import penman
from penman.exceptions import DecodeError
import reflex, reftriples
ALPHA = os.environ.get('ALPHA', '()^,"a1 \n:#')
L = int(os.environ.get('L', '5'))
PRE = ['r(', 'r(a', 'r(a,b)', 'r(a ', '']
def check(s):
    try: r = ('ok', reftriples.ref_parse_triples(s))
    except reflex.Reject as e: r = ('rej', e.lineno, e.offset)
    try: p = ('ok', penman.parse_triples(s))
    except DecodeError as e: p = ('rej', e.lineno, e.offset)
    except Exception as e: p = ('exc', type(e).__name__)
    return None if r == p else (s, r, p)
def work(args):
    pre, first = args
    n = 0; bad = []
    for l in range(0, L):
        for tup in itertools.product(ALPHA, repeat=l):
            s = pre + first + ''.join(tup); n += 1
            b = check(s)
            if b: bad.append(b)
    return n, bad[:5], len(bad)
if __name__ == '__main__':
    print(penman.__file__)
    with mp.Pool(16) as pool:
        res = pool.map(work, [(p, c) for p in PRE for c in ALPHA])
    print('strings', sum(r[0] for r in res), 'bad', sum(r[2] for r in res))
    k = 0
    for r in res:
        for b in r[1]:
            if k < 12: print(repr(b[0]), '\n   ref ', b[1], '\n   impl', b[2]); k += 1
