"""Prototype reference scanner + recogniser (design probe; written from docs/notation.rst)."""
import re
BLANK = ' \t\r\n\v\f'
NOTNAME = BLANK + '"()/:~'
LINEBREAK = re.compile(r'\r\n|\r|\n')

def split_lines(text):
    return LINEBREAK.split(text)

def _is_name(c): return c not in NOTNAME
def _digits(line, i):
    j = i
    while j < len(line) and line[j] in '0123456789': j += 1
    return j

def scan_line(line, mode='graph'):
    """yield (type, text, offset)"""
    i, n = 0, len(line)
    out = []
    while i < n:
        c = line[i]
        if c in BLANK:
            i += 1; continue
        if c == '#':
            j = line.find('\n', i)
            if j < 0: j = n
            out.append(('COMMENT', line[i:j], i)); i = j; continue
        if c == '"':
            j = i + 1; end = None
            while j < n:
                d = line[j]
                if d == '\\':
                    if j + 1 < n and line[j+1] != '\n': j += 2; continue
                    break
                if d == '"': end = j; break
                j += 1
            if end is not None:
                out.append(('STRING', line[i:end+1], i)); i = end + 1
            else:
                out.append(('UNEXPECTED', c, i)); i += 1
            continue
        if c == '(': out.append(('LPAREN', c, i)); i += 1; continue
        if c == ')': out.append(('RPAREN', c, i)); i += 1; continue
        if mode == 'graph':
            if c == '/': out.append(('SLASH', c, i)); i += 1; continue
            if c == ':':
                j = i + 1
                while j < n and _is_name(line[j]): j += 1
                out.append(('ROLE', line[i:j], i)); i = j; continue
            if c == '~':
                j = i + 1
                k = None
                # optional prefix letter + optional dot
                if j < n and line[j].isascii() and line[j].isalpha():
                    p = j + 1
                    if p < n and line[p] == '.':
                        e = _digits(line, p + 1)
                        if e > p + 1: k = e
                    if k is None:
                        e = _digits(line, p)
                        if e > p: k = e
                if k is None:
                    e = _digits(line, j)
                    if e > j: k = e
                if k is None:
                    out.append(('UNEXPECTED', c, i)); i += 1; continue
                while k < n and line[k] == ',':
                    e = _digits(line, k + 1)
                    if e > k + 1: k = e
                    else: break
                out.append(('ALIGNMENT', line[i:k], i)); i = k; continue
        else:
            if c in '/:~': out.append(('UNEXPECTED', c, i)); i += 1; continue
        j = i
        while j < n and _is_name(line[j]): j += 1
        out.append(('SYMBOL', line[i:j], i)); i = j
    return out

def scan(lines, mode='graph'):
    if isinstance(lines, str): lines = split_lines(lines)
    toks = []
    for ln, line in enumerate(lines, 1):
        for typ, text, off in scan_line(line, mode):
            toks.append((typ, text, ln, off))
    return toks

class Reject(Exception):
    def __init__(self, lineno, offset): self.lineno, self.offset = lineno, offset

def _eof(toks):
    if not toks: return Reject(0, 0)
    t = toks[-1]; return Reject(t[2], t[3] + len(t[1]))

def recognise_one(toks, pos):
    """Iterative push-down recogniser. Returns (tree_node, metadata, newpos) or raises Reject."""
    n = len(toks)
    meta = {}
    def tok(p):
        if p >= n: raise _eof(toks)
        return toks[p]
    # comments
    while tok(pos)[0] == 'COMMENT':
        text = tok(pos)[1]
        # metadata image: scan right to left for '::'
        segs = text.split('::')
        for seg in reversed(segs[1:]):
            key, _, val = seg.partition(' ')
            meta[key] = val.rstrip()
        pos += 1
    stack = []   # each frame: [var, branches, pending_role]
    state = 'NODE'
    result = None
    while True:
        t = tok(pos)
        typ = t[0]
        if state == 'NODE':
            if typ != 'LPAREN': raise Reject(t[2], t[3])
            stack.append([None, [], None]); pos += 1; state = 'VAR'
        elif state == 'VAR':
            if typ == 'RPAREN': state = 'CLOSE'
            elif typ == 'SYMBOL': stack[-1][0] = t[1]; pos += 1; state = 'AFTERVAR'
            else: raise Reject(t[2], t[3])
        elif state == 'AFTERVAR':
            if typ == 'SLASH': pos += 1; state = 'CONCEPT'
            else: state = 'EDGES'
        elif state == 'CONCEPT':
            if typ in ('SYMBOL', 'STRING'):
                c = t[1]; pos += 1
                if tok(pos)[0] == 'ALIGNMENT': c += tok(pos)[1]; pos += 1
                stack[-1][1].append(('/', c))
            else:
                stack[-1][1].append(('/', None))
            state = 'EDGES'
        elif state == 'EDGES':
            if typ == 'RPAREN': state = 'CLOSE'
            elif typ == 'ROLE':
                r = t[1]; pos += 1
                if tok(pos)[0] == 'ALIGNMENT': r += tok(pos)[1]; pos += 1
                stack[-1][2] = r; state = 'TARGET'
            else: raise Reject(t[2], t[3])
        elif state == 'TARGET':
            if typ in ('SYMBOL', 'STRING'):
                a = t[1]; pos += 1
                if tok(pos)[0] == 'ALIGNMENT': a += tok(pos)[1]; pos += 1
                f = stack[-1]; f[1].append((f[2], a)); f[2] = None; state = 'EDGES'
            elif typ == 'LPAREN': state = 'NODE'
            elif typ in ('ROLE', 'RPAREN'):
                f = stack[-1]; f[1].append((f[2], None)); f[2] = None; state = 'EDGES'
            else: raise Reject(t[2], t[3])
        elif state == 'CLOSE':
            pos += 1
            var, br, _ = stack.pop()
            node = (var, br)
            if not stack:
                return node, meta, pos
            f = stack[-1]; f[1].append((f[2], node)); f[2] = None; state = 'EDGES'

def ref_parse(text_or_lines):
    toks = scan(text_or_lines)
    node, meta, _ = recognise_one(toks, 0)
    return node, meta

def ref_iterparse(text_or_lines):
    toks = scan(text_or_lines)
    pos = 0; out = []
    while pos < len(toks) and toks[pos][0] in ('COMMENT', 'LPAREN'):
        try:
            node, meta, pos = recognise_one(toks, pos)
        except Reject as r:
            return out, r
        out.append((node, meta))
    return out, None
