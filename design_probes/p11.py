import sys, logging, collections, os, random, itertools
logging.disable(logging.CRITICAL)
from hypothesis import given, settings, seed, HealthCheck, strategies as st
import penman
from penman import layout, transform
from penman.graph import Graph
from penman.tree import Tree, is_atomic
from penman.model import Model
from penman.models.amr import model as amr
import gen
gen.ROLES[:] = [':ARG0',':ARG1',':mod',':domain',':polarity',':quant',':time',':location',':part',':poss',':beneficiary',':subset',':age',':name',':op1',':accompanier', ':role', ':employed-by', ':superset']
gen.CONCEPTS[:] = ['alpha','beta','b','i','"a string"','1','x-01','c','have-mod-91','include-91','own-01','have-quant-91','have-mod-91','include-91','own-01']
from gen import trees
print(penman.__file__)
model = amr
def norm(triples, variables, model):
    out=[]
    for s,r,t in triples:
        if r != ':instance' and t in variables and model.is_role_inverted(r):
            s,r,t = model.invert((s,r,t))
        out.append((s,r,None if t is None else str(t)))
    return sorted(out, key=repr)
def wf(g):
    vs = g.variables()
    inst = collections.Counter(s for s,r,t in g.triples if r==':instance')
    return all(s in vs and inst[s]==1 for s,_,_ in g.triples) and len(set(g.triples))==len(g.triples)
fails = collections.Counter(); examples = {}; n=[0,0,0]
def rec(k, ex):
    fails[k]+=1
    cur=examples.get(k)
    if cur is None or len(repr(ex))<len(repr(cur)): examples[k]=ex
OPS = {'re': lambda g: transform.reify_edges(g, model), 'de': lambda g: transform.dereify_edges(g, model), 'ra': transform.reify_attributes, 'ib': lambda g: transform.indicate_branches(g, model)}
@seed(int(os.environ.get('S','1')))
@settings(max_examples=int(os.environ.get('N','3000')), deadline=None, database=None, suppress_health_check=list(HealthCheck))
@given(st.data())
def run(data):
    node = data.draw(trees())
    n[0]+=1
    t = Tree(node)
    g = layout.interpret(t, model)
    if len(set(g.triples)) != len(g.triples): return
    if any(model.invert_role(model.invert_role(r)) != r for _,r,_ in g.triples if r != ':instance'): return
    c11ok = not any(r.startswith(':superset') for _,r,_ in g.triples) and not any(r==':instance' and model.is_concept_dereifiable(t) for _,r,t in g.triples)
    n[1]+=1
    src = penman.format(t, indent=None)
    strip = data.draw(st.booleans())
    if strip:
        g = Graph(g.triples, top=g.top)
    edit = data.draw(st.sampled_from(['none','append','retop','both']))
    if edit in ('append','both'):
        v = data.draw(st.sampled_from(sorted(g.variables())))
        extra = (v, data.draw(st.sampled_from([':mod',':quant',':ARG1',':polarity'])), data.draw(st.sampled_from(['zz','9','"q"'])))
        if extra not in g.triples: g.triples.append(extra)
    if edit in ('retop','both'):
        g.top = data.draw(st.sampled_from(sorted(g.variables())))
    # C11
    try:
      if c11ok:
        g1 = transform.reify_edges(g, model)
        if any(model.is_role_reifiable(r) for _,r,_ in g1.triples): rec(('reify-left',), (src,))
        g2 = transform.dereify_edges(g1, model)
        e0 = penman.encode(g, model=model, indent=None); e2 = penman.encode(g2, model=model, indent=None)
        if e0 != e2: rec(('c11-text', strip), (src, e0, penman.encode(g1, model=model, indent=None), e2))
      n[2]+=1
    except Exception as e:
        rec(('c11-exc', type(e).__name__, strip), (src, repr(e)))
    # C12 programs
    prog = data.draw(st.lists(st.sampled_from(['re','de','ra','ib']), min_size=1, max_size=4))
    if prog.count('ib')>1: return
    h = g
    try:
        for op in prog:
            h = OPS[op](h)
            if h.top != g.top: rec(('top', op), (src, prog)); return
            if not wf(h): rec(('illformed', tuple(prog)), (src, prog, h.triples)); return
            s = penman.encode(h, model=model, indent=None)
            h2 = penman.decode(s, model=model)
            if not (h2.top==h.top and norm(h2.triples,h2.variables(),model)==norm(h.triples,h.variables(),model)):
                rec(('rt', tuple(prog)), (src, prog, s)); return
    except Exception as e:
        rec(('c12-exc', type(e).__name__, tuple(prog)), (src, prog, repr(e)))
run()
print(n, dict(fails))
for k,v in sorted(examples.items(), key=repr)[:14]:
    print(k); print('   ', v)
