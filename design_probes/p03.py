import sys, logging, collections, os, random
logging.disable(logging.CRITICAL)
from hypothesis import given, settings, seed, HealthCheck, strategies as st
import penman
from penman import layout
from penman.graph import Graph
from penman.tree import Tree, is_atomic
from penman.model import Model
from penman.models.amr import model as amr
from penman.exceptions import LayoutError
from gen import trees
print(penman.__file__)
MODELS = {'default': Model(), 'amr': amr}

def norm(triples, variables, model):
    out=[]
    for s,r,t in triples:
        if r != ':instance' and t in variables and model.is_role_inverted(r):
            s,r,t = model.invert((s,r,t))
        out.append((s,r,None if t is None else str(t)))
    return sorted(out, key=repr)

def noncanon_roles(g, model):
    return any(model.invert_role(model.invert_role(r)) != r for _,r,_ in g.triples if r != ':instance')

fails = collections.Counter(); examples = {}; n=[0,0,0]
@seed(int(os.environ.get('S','1')))
@settings(max_examples=int(os.environ.get('N','3000')), deadline=None, database=None, suppress_health_check=list(HealthCheck))
@given(st.data())
def run(data):
    node = data.draw(trees(aligned=False))
    mname = data.draw(st.sampled_from(sorted(MODELS)))
    model = MODELS[mname]
    n[0]+=1
    g = layout.interpret(Tree(node), model)
    if len(set(g.triples)) != len(g.triples) or noncanon_roles(g, model): return
    # optionally replace some const targets by numbers
    triples = list(g.triples)
    mode = data.draw(st.sampled_from(['keep','shuffle_nomark','shuffle_mark','nomark','corrupt']))
    epidata = {k:list(v) for k,v in g.epidata.items()}
    if mode in ('shuffle_nomark','shuffle_mark'):
        triples = data.draw(st.permutations(triples))
    if mode in ('shuffle_nomark','nomark'):
        epidata = {}
    if mode == 'corrupt':
        vs = sorted(g.variables())
        k = data.draw(st.integers(1,4))
        for _ in range(k):
            t = data.draw(st.sampled_from(triples))
            op = data.draw(st.sampled_from(['drop','push','pop','swap']))
            if op=='drop': epidata[t]=[]
            elif op=='push': epidata.setdefault(t,[]).insert(0, layout.Push(data.draw(st.sampled_from(vs))))
            elif op=='pop': epidata.setdefault(t,[]).append(layout.POP)
            else:
                t2 = data.draw(st.sampled_from(triples)); epidata[t], epidata[t2] = epidata.get(t2,[]), epidata.get(t,[])
    vs = sorted(g.variables())
    top = data.draw(st.sampled_from(vs))
    g1 = Graph(triples, top=g.top, epidata=epidata)
    n[1]+=1
    try:
        s = penman.encode(g1, top=top, model=model)
    except Exception as e:
        k=('encode', type(e).__name__, mode); fails[k]+=1
        cur=examples.get(k)
        if cur is None or len(triples)<len(cur[0]): examples[k]=(triples, epidata, top, mname, str(e))
        return
    try:
        g2 = penman.decode(s, model=model)
    except Exception as e:
        k=('decode', type(e).__name__, mode); fails[k]+=1; examples.setdefault(k,(triples, epidata, top, mname, s)); return
    ok = g2.top == top and g2.variables()==g1.variables() and norm(g2.triples, g2.variables(), model)==norm(g1.triples, g1.variables(), model)
    if not ok:
        k=('diff', mode); fails[k]+=1
        cur=examples.get(k)
        if cur is None or len(triples)<len(cur[0]): examples[k]=(triples, epidata, top, mname, s)
run()
print(n, dict(fails))
for k,v in examples.items():
    print(k); print('   ', v)
