import sys, logging, collections, os
logging.disable(logging.CRITICAL)
from hypothesis import given, settings, seed, HealthCheck, strategies as st
import penman
from penman import layout
from penman.tree import Tree, is_atomic
from penman.model import Model
from gen import trees
print(penman.__file__)
model = Model()
fails = collections.Counter(); examples = {}; n=collections.Counter()
def rec(k, ex):
    fails[k]+=1
    cur=examples.get(k)
    if cur is None or len(repr(ex))<len(repr(cur)): examples[k]=ex
def prefix(c):
    if isinstance(c,str):
        c0 = c
        for ch in c0:
            if ch.isalpha(): return ch.lower()
    return '_'
def refmap(node, fmt):
    m = {}; used=set()
    def walk(nd):
        var, br = nd
        if var not in m:
            conc = next((t for r,t in br if r=='/'), None)
            p = prefix(conc); i=0
            while True:
                nv = fmt.format(prefix=p, i=i, j='' if i==0 else i+1)
                if nv not in used: break
                i+=1
            used.add(nv); m[var]=nv
        for r,t in br:
            if not is_atomic(t): walk(t)
    walk(node); return m
def rename(node, m):
    var, br = node
    out=[]
    for r,t in br:
        if not is_atomic(t): out.append((r, rename(t,m)))
        elif r!='/' and t is not None and t.partition('~')[0] in m and not t.startswith('"'):
            a,ti,al = t.partition('~'); out.append((r, m[a]+ti+al))
        else: out.append((r,t))
    return (m[var], out)
# C14 reference
def ref_diag(node, model):
    ctx=[]; pushed=[]; inv=[]; triples=[]
    vars_ = set(v for v,_ in Tree(node).nodes())
    def walk(nd):
        var, br = nd
        loc=[]
        hasc = any(r=='/' for r,_ in br)
        for r,t in br:
            r0 = r.partition('~')[0]
            if r=='/':
                loc.append(((var,':instance', None if t is None else (t[:t.rindex('"')+1] if t.startswith('"') else t.partition('~')[0])), var, None, False)); continue
            if is_atomic(t):
                t0 = t if (t is None or t.startswith('"')) else t.partition('~')[0]
                if t is not None and t.startswith('"'): t0 = t[:t.rindex('"')+1]
                if model.is_role_inverted(r0) and t0 in vars_:
                    loc.append(((t0, r0[:-3], var), var, None, True))
                else:
                    loc.append(((var, r0, t0), var, None, False))
            else:
                if model.is_role_inverted(r0):
                    loc.append(((t[0], r0[:-3], var), var, t[0], True))
                else:
                    loc.append(((var, r0, t[0]), var, t[0], False))
                loc.extend(walk(t))
        if not hasc: loc.insert(0, ((var,':instance',None), var, None, False))
        return loc
    return walk(node)
@seed(int(os.environ.get('S','1')))
@settings(max_examples=int(os.environ.get('N','4000')), deadline=None, database=None, suppress_health_check=list(HealthCheck))
@given(trees(), st.sampled_from(['{prefix}{j}','{prefix}{i}','a{i}','x{j}','{prefix}_{i}{j}','{i}']))
def run(node, fmt):
    t = Tree(node)
    g = layout.interpret(t, model)
    if len(set(g.triples)) != len(g.triples): return
    if any(model.invert_role(model.invert_role(r)) != r for _,r,_ in g.triples if r != ':instance'): return
    n['cases']+=1
    # C14
    ref = ref_diag(node, model)
    if [x[0] for x in ref] != g.triples: rec(('c04-triples',), (penman.format(t,indent=None), [x[0] for x in ref], g.triples))
    else:
        nc = layout.node_contexts(g)
        if nc != [x[1] for x in ref]: rec(('c14-ctx',), (penman.format(t,indent=None), nc, [x[1] for x in ref]))
        for (tr, c, p, iv) in ref:
            if layout.get_pushed_variable(g, tr) != p: rec(('c14-push',), (penman.format(t,indent=None), tr, p))
            if tr[0]!=tr[2] and layout.appears_inverted(g, tr) != iv: rec(('c14-inv',), (penman.format(t,indent=None), tr, iv))
    # C10
    m = refmap(node, fmt)
    t2 = penman.parse(penman.format(t, indent=None))
    t2.reset_variables(fmt)
    exp = rename(node, m)
    if t2.node != exp: rec(('c10-tree', fmt), (penman.format(t,indent=None), penman.format(t2,indent=None), penman.format(Tree(exp),indent=None)))
run()
print(dict(n), dict(fails))
for k,v in examples.items():
    print(k)
    for x in v: print('    ', repr(x)[:600])
