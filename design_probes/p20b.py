"""CLI vs documented library pipeline differential (design probe for C20/C16)."""
import sys, io, os, logging, collections, json, tempfile, shutil, random
logging.disable(logging.CRITICAL)
sys.path.insert(0, '/verif/design_probes')
from hypothesis import given, settings, seed, HealthCheck, strategies as st
import penman
from penman import __main__ as cli, layout, transform
from penman.tree import Tree
from penman.model import Model
from penman.models.amr import model as amr
from penman.models.noop import model as noop
import gen
gen.ROLES[:] = [':ARG0',':ARG1',':mod',':domain',':polarity',':quant',':time',':location',':part',':poss',':op1',':op2',':op10', ':foo', ':consist-of', ':']
from gen import trees
print(penman.__file__)
TMP = tempfile.mkdtemp()
def run_cli(argv, stdin_text):
    old = sys.argv, sys.stdin, sys.stdout
    out = io.StringIO()
    sys.argv = ['penman'] + argv; sys.stdin = io.StringIO(stdin_text); sys.stdout = out
    code = None
    try:
        try: cli.main()
        except SystemExit as e: code = e.code
    finally:
        sys.argv, sys.stdin, sys.stdout = old
    return code, out.getvalue()
REARR = {'random': 'random_order', 'canonical': 'canonical_order', 'alphanumeric': 'alphanumeric_order', 'inverted-last': 'is_role_inverted'}
RECONF = {'original': 'original_order', 'random': 'random_order', 'canonical': 'canonical_order'}
def pipeline(texts, model, o):
    """documented pipeline; returns (stdout, exit)"""
    out = []; code = 0
    for text in texts:
        first = True
        for t in penman.iterparse(text):
            if not first: out.append('')
            first = False
            if o['canon']: t = transform.canonicalize_roles(t, model)
            g = layout.interpret(t, model)
            if o['re']: g = transform.reify_edges(g, model)
            if o['de']: g = transform.dereify_edges(g, model)
            if o['ra']: g = transform.reify_attributes(g)
            if o['ib']: g = transform.indicate_branches(g, model)
            if o['check']:
                errs = model.errors(g)
                if errs:
                    code = 1
                    for i, (tr, msgs) in enumerate(errs.items(), 1):
                        ctx = '({}) '.format(' '.join(map(str, tr))) if tr else ''
                        for m in msgs: g.metadata[f'error-{i}'] = ctx + m
            if o['triples']:
                s = penman.format_triples(g.triples, indent=bool(o['indent'] if o['indent'] is not None else False) if o['indent_given'] else True)
            else:
                if o['reconf']:
                    keys = [getattr(model, RECONF[k]) for k in o['reconf']]
                    t2 = layout.reconfigure(g, model=model, key=lambda r: [f(r) for f in keys])
                else:
                    t2 = layout.configure(g, model=model)
                if o['rearr']:
                    keys = [getattr(model, REARR[k]) for k in o['rearr'] if k in REARR]
                    layout.rearrange(t2, key=lambda r: [f(r) for f in keys], attributes_first='attributes-first' in o['rearr'])
                if o['mv']: t2.reset_variables(o['mv'])
                s = penman.format(t2, indent=o['indent'], compact=o['compact'])
            out.append(s)
    return ''.join(x + '\n' for x in out), code
fails = collections.Counter(); ex={}
def rec(k,e):
    fails[k]+=1
    if k not in ex or len(repr(e))<len(repr(ex[k])): ex[k]=e
n=[0]
@seed(int(os.environ.get('S','1')))
@settings(max_examples=int(os.environ.get('N','1500')), deadline=None, database=None, suppress_health_check=list(HealthCheck))
@given(st.data())
def run(data):
    nfiles = data.draw(st.integers(0, 2))
    texts = []
    for _ in range(max(1, nfiles)):
        nodes = data.draw(st.lists(trees(max_nodes=4), min_size=0, max_size=3))
        texts.append('\n\n'.join(penman.format(Tree(x), indent=None) for x in nodes) + '\n')
    mflag = data.draw(st.sampled_from(['', '--amr', '--noop']))
    model = {'': Model(), '--amr': amr, '--noop': noop}[mflag]
    o = dict(canon=data.draw(st.booleans()), re=data.draw(st.booleans()), de=data.draw(st.booleans()), ra=data.draw(st.booleans()), ib=data.draw(st.booleans()), check=data.draw(st.booleans()), triples=data.draw(st.integers(0,4))==0, compact=data.draw(st.booleans()))
    o['reconf'] = data.draw(st.sampled_from([None, ['original'], ['canonical'], ['canonical','original']]))
    o['rearr'] = data.draw(st.sampled_from([None, ['canonical'], ['alphanumeric'], ['attributes-first'], ['inverted-last','alphanumeric'], ['attributes-first','canonical']]))
    o['mv'] = data.draw(st.sampled_from([None,'{prefix}{j}','a{i}']))
    ind = data.draw(st.sampled_from([None,'no','0','3','-1']))
    o['indent_given'] = ind is not None
    o['indent'] = -1 if ind is None else (None if ind=='no' else int(ind))
    argv = [mflag] if mflag else []
    for k, f in (('canon','--canonicalize-roles'),('re','--reify-edges'),('de','--dereify-edges'),('ra','--reify-attributes'),('ib','--indicate-branches'),('check','--check'),('triples','--triples'),('compact','--compact')):
        if o[k]: argv.append(f)
    if o['reconf']: argv += ['--reconfigure', ','.join(o['reconf'])]
    if o['rearr']: argv += ['--rearrange', ','.join(o['rearr'])]
    if o['mv']: argv += ['--make-variables', o['mv']]
    if ind is not None: argv += ['--indent=' + ind]
    stdin = ''
    if nfiles == 0: stdin = texts[0]
    else:
        for i, tx in enumerate(texts):
            p = os.path.join(TMP, f'in{i}.txt'); open(p, 'w', encoding='utf-8').write(tx); argv.append(p)
    n[0]+=1
    try: exp = pipeline(texts, model, o); experr = None
    except Exception as e: exp = None; experr = type(e).__name__
    try: code, got = run_cli(argv, stdin); goterr = None
    except Exception as e: got = None; goterr = type(e).__name__
    if experr or goterr:
        if experr != goterr: rec(('exc-mismatch',), (argv, texts, experr, goterr))
        return
    if got != exp[0]: rec(('stdout', bool(o['triples'])), (argv, texts, exp[0], got))
    if (code or 0) != exp[1]: rec(('exit',), (argv, texts, exp[1], code))
run()
shutil.rmtree(TMP)
print(n, dict(fails))
for k,v in ex.items():
    print(k)
    for x in v: print('    ', repr(x)[:500])
