import re, os, logging, collections
logging.disable(logging.CRITICAL)
from hypothesis import given, settings, seed, HealthCheck, strategies as st
import penman
from penman.graph import Graph
from penman.model import Model
from penman.models.amr import model as amr
from penman.exceptions import GraphError
print(penman.__file__)
V=['a','b','c']
role = st.sampled_from([':instance','instance',':ARG0',':ARG0-of',':ARG0-of-of',':mod',':mod-of',':foo',':consist-of',':consist-of-of',':op12','op1',':',''])
tgt = st.one_of(st.sampled_from(V), st.sampled_from(['x','"s"','5']), st.none())
triple = st.tuples(st.sampled_from(V), role, tgt)
fails = collections.Counter(); ex={}
def rec(k,e):
    fails[k]+=1
    if k not in ex or len(repr(e))<len(repr(ex[k])): ex[k]=e
def defined(m, r):
    return any(re.fullmatch(p, r) for p in list(m.roles)+[m.top_role, m.concept_role])
def ref_errors(m, triples, top_explicit):
    triples = [(s, r if r.startswith(':') else ':'+r, t) for s,r,t in triples]
    out = collections.defaultdict(set)
    if not triples: out[None].add('graph is empty'); return out
    srcs = {s for s,_,_ in triples}
    for t in triples:
        r = t[1]
        if not (defined(m, r) or (r.endswith('-of') and defined(m, r[:-3]))): out[t].add('invalid role')
    top = top_explicit if top_explicit is not None else triples[0][0]
    if top not in srcs: out[None].add('top is not a variable in the graph'); return out
    adj = {s:set() for s in srcs}
    for s,r,t in triples:
        if t in srcs: adj[s].add(t); adj[t].add(s)
    seen=set(); ag=[top]
    while ag:
        c=ag.pop()
        if c in seen: continue
        seen.add(c); ag.extend(adj[c])
    for t in triples:
        if t[0] not in seen: out[t].add('unreachable')
    return out
n=[0]
@seed(int(os.environ.get('S','1')))
@settings(max_examples=int(os.environ.get('N','6000')), deadline=None, database=None, suppress_health_check=list(HealthCheck))
@given(st.lists(triple, max_size=6), st.one_of(st.none(), st.sampled_from(V+['z'])), st.sampled_from(['default','amr']))
def run(ts, top, mname):
    n[0]+=1
    m = {'default': Model(), 'amr': amr}[mname]
    g = Graph(ts, top=top)
    got = {k:set(v) for k,v in m.errors(g).items()}
    exp = dict(ref_errors(m, ts, top))
    if got != exp: rec(('errors', mname), (ts, top, exp, got))
    # C15 partition
    vs = g.variables()
    inst = [t for t in g.triples if t[1]==':instance']; ed=[t for t in g.triples if t[1]!=':instance' and t[2] in vs]; at=[t for t in g.triples if t[1]!=':instance' and t[2] not in vs]
    if [tuple(x) for x in g.instances()]!=inst or [tuple(x) for x in g.edges()]!=ed or [tuple(x) for x in g.attributes()]!=at: rec(('partition',), (ts, top))
    srcs = {s for s,_,_ in g.triples} | ({top} if top is not None else set())
    if vs != srcs: rec(('vars',), (ts, top))
    ent = collections.Counter(t[2] for t in ed)
    if g.top is not None: ent[g.top]+=1
    if g.reentrancies() != {v:c-1 for v,c in ent.items() if c>=2}: rec(('reent',), (ts, top, g.reentrancies()))
run()
print(n, dict(fails))
for k,v in ex.items():
    print(k)
    for x in v: print('    ', repr(x)[:300])
