import itertools, re, collections, math
import penman
from penman import constant
from penman._lexer import lex, PENMAN_RE, TRIPLE_RE
from penman.exceptions import ConstantError
fails = collections.Counter(); ex={}
def rec(k,e):
    fails[k]+=1; ex.setdefault(k,e)
A = ['"','\\','\n','\t','\x00','\x7f','é','\u2028','\x85','(',')','/',':','~','#',' ','a','\ud800']
n=0
for L in range(0,4):
    for tup in itertools.product(A, repeat=L):
        s=''.join(tup); n+=1
        q = constant.quote(s)
        for pat in (PENMAN_RE, TRIPLE_RE):
            toks = list(lex(q, pattern=pat))
            if not (len(toks)==1 and toks[0].type=='STRING' and toks[0].text==q): rec(('lex',), (s,q,[(t.type,t.text) for t in toks]))
        try:
            if constant.evaluate(q) != s: rec(('eval',), (s,q,constant.evaluate(q)))
            if constant.type(q) != constant.STRING: rec(('type',), (s,q))
        except Exception as e: rec(('exc',type(e).__name__), (s,q))
print('quote cases', n)
JSONNUM = re.compile(r'-?(0|[1-9][0-9]*)(\.[0-9]+)?([eE][+-]?[0-9]+)?')
B = ['0','1','9','-','+','.','e','E','"','\\','a','n','N','I','t']
m=0
for L in range(0,5):
    for tup in itertools.product(B, repeat=L):
        a=''.join(tup); m+=1
        try:
            v = constant.evaluate(a)
        except ConstantError:
            continue
        except Exception as e:
            rec(('evexc', type(e).__name__), a); continue
        mt = JSONNUM.fullmatch(a)
        if isinstance(v, bool) or (isinstance(v,float) and math.isnan(v)) or isinstance(v,(list,dict)): rec(('badtype',), (a,v))
        if mt:
            isint = mt.group(2) is None and mt.group(3) is None
            if isint and not (type(v) is int and v == int(a)): rec(('int',), (a,v))
            if not isint and not (type(v) is float and v == float(a)): rec(('float',), (a,v))
        else:
            if isinstance(v,(int,float)): rec(('num-nonjson',), (a,v))
            if v is None and a != '': rec(('none',), (a,))
        try:
            ty = constant.type(a)
            want = {int: constant.INTEGER, float: constant.FLOAT, type(None): constant.NULL}.get(type(v))
            if want is not None and ty != want: rec(('tymis',), (a,v,ty))
            if type(v) is str and ty not in (constant.SYMBOL, constant.STRING): rec(('tymis2',), (a,v,ty))
        except Exception as e: rec(('tyexc', type(e).__name__), a)
print('atoms', m, dict(fails))
for k,v in ex.items(): print(k, repr(v)[:200])
