import penman, io, tempfile, os, logging
from penman import layout, transform, surface
from penman.models.amr import model as amr
from penman.models.noop import model as noop
from penman.graph import Graph
logging.disable(logging.CRITICAL)
def tryit(name, f):
    try:
        print(name, '=>', repr(f()))
    except Exception as e:
        print(name, 'RAISES', type(e).__name__, str(e).replace('\n',' | ')[:200])

# F1
tryit('F1 encode(decode("(a :ROLE (b :ROLE a))"))', lambda: penman.encode(penman.decode('(a :ROLE (b :ROLE a))'), indent=None))
tryit('F1b', lambda: penman.encode(penman.decode('(a :ARG0 (b :ARG1 c))'), indent=None))
tryit('F1c node_contexts', lambda: layout.node_contexts(penman.decode('(a :ARG0 (b :ARG1 c))')))
g=penman.decode('(a :ROLE (b :ROLE a))'); print(g.triples, g.epidata)
# F5
tryit('F5', lambda: penman.encode(Graph([('a',':instance','x'),('a',':quant',0)])))
tryit('F5b', lambda: penman.encode(Graph([('a',':instance','x'),('a',':quant',0.0)])))
tryit('F5c concept 0', lambda: penman.encode(Graph([('a',':instance',0)])))
# F2
tryit('F2 loads', lambda: [ (g.triples,g.metadata) for g in penman.loads("# ::snt foo bar\n(a / b)")])
def f2():
    with tempfile.NamedTemporaryFile('w',suffix='.txt',delete=False,encoding='utf-8') as fh:
        fh.write("# ::snt foo bar\n(a / b)")
    r=[(g.triples,g.metadata) for g in penman.load(fh.name, encoding='utf-8')]
    os.unlink(fh.name); return r
tryit('F2 load', f2)
# F6
tryit('F6 ~E.1', lambda: penman.parse('(a / b~E.1)'))
tryit('F6 lex', lambda: [(t.type,t.text) for t in penman._lexer.lex('(a / b~E.1)')])
# F7
def f7():
    t=penman.parse('(v1 / i :ARG0 v1~e.5)'); t.reset_variables(); return penman.format(t,indent=None)
tryit('F7', f7)
# F8
tryit('F8', lambda: penman.parse_triples('instance(a, "q")'))
tryit('F8b', lambda: penman.parse_triples(penman.format_triples(penman.decode('(a / b :x "q r")').triples)))
# F10
tryit('F10', lambda: penman.parse_triples('role(a b)'))
# F11 noop
tryit('F11 nested', lambda: penman.decode('(a :R-of (b))', model=noop).triples)
tryit('F11 reent', lambda: penman.decode('(a :R (b) :R-of b)', model=noop).triples)
# F9
tryit('F9 reify', lambda: transform.reify_edges(Graph([('a',':instance','x'),('a',':mod','7')]), amr).triples)
tryit('F9 dereify', lambda: transform.dereify_edges(Graph([('a',':instance','x'),('_',':ARG1','a'),('_',':instance','have-mod-91'),('_',':ARG2','7')]), amr).triples)
tryit('F9 node_contexts', lambda: layout.node_contexts(Graph([('a',':instance','x'),('a',':mod','7')])))
tryit('F9 appears_inverted', lambda: layout.appears_inverted(Graph([('a',':instance','x'),('a',':mod','b'),('b',':instance','y')]), ('a',':mod','b')))
tryit('F9 get_pushed', lambda: layout.get_pushed_variable(Graph([('a',':instance','x'),('a',':mod','7')]), ('a',':mod','7')))
# F12
def f12():
    g=penman.decode('(a / x :ARG0 (b / y))'); g.top='b'
    return [transform.reify_attributes(g).top, transform.indicate_branches(g, amr).top, transform.reify_edges(g, amr).top, transform.dereify_edges(g, amr).top]
tryit('F12', f12)
# F4
def f4():
    g=penman.decode('(a / x :superset 7)', model=amr)
    g2=transform.dereify_edges(transform.reify_edges(g,amr),amr)
    return g2.triples
tryit('F4', f4)
