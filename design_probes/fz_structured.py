#!/venv/bin/python
import sys, logging
sys.path.insert(0, '/tmp/scratch2/deps'); sys.path.insert(0, '/verif/design_probes')
import atheris
logging.disable(logging.CRITICAL)
with atheris.instrument_imports(include=['penman']):
    import penman
    from penman import layout
from penman.tree import Tree
from penman.model import Model
from hypothesis import given, settings, strategies as st, HealthCheck
from gen import trees
model = Model()
def norm(triples, variables):
    out=[]
    for s,r,t in triples:
        if r != ':instance' and t in variables and model.is_role_inverted(r):
            s,r,t = model.invert((s,r,t))
        out.append((s,r,None if t is None else str(t)))
    return sorted(out, key=repr)
cnt=[0]
@settings(database=None, deadline=None, suppress_health_check=list(HealthCheck))
@given(st.data())
def test(data):
    node = data.draw(trees(aligned=False, max_nodes=6))
    g = layout.interpret(Tree(node), model)
    if len(set(g.triples)) != len(g.triples): return
    if any(model.invert_role(model.invert_role(r)) != r for _,r,_ in g.triples if r != ':instance'): return
    from gen import fy; triples = fy(data.draw, g.triples)
    top = data.draw(st.sampled_from(sorted(g.variables())))
    h = penman.Graph(triples, top=g.top, epidata=g.epidata if data.draw(st.booleans()) else {})
    cnt[0]+=1
    s = penman.encode(h, top=top, indent=None)
    g2 = penman.decode(s)
    assert norm(g2.triples, g2.variables()) == norm(g.triples, g.variables()), (triples, top, s)
atheris.Setup(sys.argv, test.hypothesis.fuzz_one_input)
atheris.Fuzz()
