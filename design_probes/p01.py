import sys, logging, collections, os
logging.disable(logging.CRITICAL)
from hypothesis import given, settings, seed, HealthCheck, strategies as st
import penman
from penman.tree import Tree
print(penman.__file__)
BLANK=' \t\r\n\v\f'
NAMEX = BLANK+'"()/:~'
namechar = st.one_of(st.sampled_from('abcxyzABC019-_.,^#\\+*\'|{}[]<>=@!?$%&;`'), st.characters(exclude_categories=['Cs'], exclude_characters=NAMEX))
symbol = st.text(namechar, min_size=1, max_size=6).filter(lambda s: not s.startswith('#'))
strchar = st.one_of(st.sampled_from('ab ()/:~#,^.-\t'), st.characters(exclude_categories=['Cs'], exclude_characters='"\\\n\r\f\v'))
strpart = st.one_of(strchar, st.builds(lambda c: '\\'+c, st.one_of(st.sampled_from('"\\nt '), strchar)))
string = st.lists(strpart, max_size=6).map(lambda ps: '"'+''.join(ps)+'"')
aln = st.one_of(st.just(''), st.just(''), st.builds(lambda p,d,idx: '~'+p+d+','.join(map(str,idx)), st.sampled_from(['','e','x','E']), st.sampled_from(['','.']), st.lists(st.integers(0,99),min_size=1,max_size=3)).filter(lambda a: not (a[1:2]=='.' )))
def fixaln(a):
    # dot only allowed after a letter
    if len(a)>1 and a[1]=='.': return '~'+a[2:]
    return a
aln = aln.map(fixaln)
role = st.builds(lambda s,a: ':'+s+a, st.one_of(st.just(''), st.text(namechar, min_size=1, max_size=5)), aln)
atom = st.builds(lambda s,a: s+a, st.one_of(symbol, string), aln)
def node(depth):
    if depth==0:
        sub = atom
    else:
        sub = st.one_of(atom, atom, st.deferred(lambda: node(depth-1)), st.none(), st.just((None, [])))
    edges = st.lists(st.tuples(role, sub), max_size=4)
    concept = st.one_of(st.none(), st.just([('/', None)]), atom.map(lambda a: [('/', a)]))
    return st.builds(lambda v,c,e: (v, (c or [])+e), symbol, concept, edges)
metakey = st.text(st.sampled_from('abcxyz019-_.'), min_size=0, max_size=4)
metaval = st.text(st.one_of(st.sampled_from('ab ;()"#: \x85\x0b\x0c\x1c'), st.characters(exclude_categories=['Cs'], exclude_characters='\n\r')), max_size=8).filter(lambda v: '::' not in v and v==v.strip() and not v.startswith(':') )
metadata = st.dictionaries(metakey, metaval, max_size=3)
fails = collections.Counter(); examples = {}; n=[0]
def rec(k, ex):
    fails[k]+=1
    cur=examples.get(k)
    if cur is None or len(repr(ex))<len(repr(cur)): examples[k]=ex
@seed(int(os.environ.get('S','1')))
@settings(max_examples=int(os.environ.get('N','3000')), deadline=None, database=None, suppress_health_check=list(HealthCheck))
@given(node(3), metadata, st.sampled_from([None,-1,0,1,2,5]), st.booleans())
def run(nd, md, indent, compact):
    n[0]+=1
    t = Tree(nd, metadata=md)
    try:
        s = penman.format(t, indent=indent, compact=compact)
        t2 = penman.parse(s)
    except Exception as e:
        rec(('exc', type(e).__name__), (nd, md, indent, compact, str(e)[:100])); return
    if t2.node != nd: rec(('node',), (nd, s, t2.node))
    elif t2.metadata != md: rec(('meta',), (md, s, t2.metadata))
    elif penman.format(t2, indent=indent, compact=compact) != s: rec(('fix',), (nd, md, s))
run()
print(n, dict(fails))
for k,v in examples.items():
    print(k); 
    for x in v: print('    ', repr(x)[:500])
