import sys, io, logging, collections, os, random, contextlib
logging.disable(logging.CRITICAL)
from hypothesis import given, settings, seed, HealthCheck, strategies as st
import penman
from penman import __main__ as cli
from penman.tree import Tree
from penman.model import Model
from penman.models.amr import model as amr
import gen
gen.ROLES[:] = [':ARG0',':ARG1',':mod',':domain',':polarity',':quant',':time',':location',':part',':poss',':op1',':op2',':op10', ':foo', ':consist-of', ':']
from gen import trees
print(penman.__file__)

def run_cli(argv, stdin_text):
    old = sys.argv, sys.stdin, sys.stdout
    out = io.StringIO()
    sys.argv = ['penman'] + argv; sys.stdin = io.StringIO(stdin_text); sys.stdout = out
    code = None
    try:
        try:
            cli.main()
        except SystemExit as e:
            code = e.code
    finally:
        sys.argv, sys.stdin, sys.stdout = old
    return code, out.getvalue()

NORM = ['--canonicalize-roles','--reify-edges','--dereify-edges','--reify-attributes']
fails = collections.Counter(); examples = {}; n=[0,0,0]
def rec(k, ex):
    fails[k]+=1
    cur=examples.get(k)
    if cur is None or len(repr(ex))<len(repr(cur)): examples[k]=ex
@seed(int(os.environ.get('S','1')))
@settings(max_examples=int(os.environ.get('N','1500')), deadline=None, database=None, suppress_health_check=list(HealthCheck))
@given(st.data())
def run(data):
    nodes = data.draw(st.lists(trees(max_nodes=5), min_size=1, max_size=3))
    from penman import layout
    for x in nodes:
        for mm in (Model(), amr):
            g = layout.interpret(Tree(x), mm)
            if len(set(g.triples)) != len(g.triples): return
            if any(mm.invert_role(mm.invert_role(r)) != r for _,r,_ in g.triples): return
            vs = g.variables()
            if any(s_==t_ and False for s_,r,t_ in g.triples): return
            if any(r != ':instance' and t_ not in vs and mm.is_role_inverted(r) for s_,r,t_ in g.triples): return
        # inverted self loops
        def selfloop(node):
            var, br = node
            for r,t in br:
                if isinstance(t, tuple):
                    if selfloop(t): return True
                elif t is not None and t.partition('~')[0]==var and r.partition('~')[0].endswith('-of'): return True
            return False
        if selfloop(x): return
    n[1]+=1
    text = '\n\n'.join(penman.format(Tree(x), indent=None) for x in nodes)
    opts = []
    m = data.draw(st.sampled_from(['', '--amr', '--noop']))
    if m: opts.append(m)
    for o in NORM:
        if data.draw(st.booleans()): opts.append(o)
    ra = data.draw(st.sampled_from([None,'canonical','alphanumeric','attributes-first','inverted-last','attributes-first,alphanumeric']))
    if ra: opts += ['--rearrange', ra]
    mv = data.draw(st.sampled_from([None,'{prefix}{j}','a{i}','{prefix}{i}']))
    if mv: opts += ['--make-variables', mv]
    ind = data.draw(st.sampled_from([None,'no','0','3','-1']))
    if ind: opts += ['--indent='+ind]
    if data.draw(st.booleans()): opts.append('--compact')
    n[0]+=1
    try:
        c1, o1 = run_cli(opts, text)
    except Exception as e:
        rec(('exc1', type(e).__name__), (text, opts, repr(e))); return
    try:
        c2, o2 = run_cli(opts, o1)
    except Exception as e:
        rec(('exc2', type(e).__name__), (text, opts, o1, repr(e))); return
    if o1 != o2:
        rec(('nonidem', tuple(o for o in opts if o in NORM or o.startswith('--make') or o in ('--amr','--noop'))), (text, opts, o1, o2))
    if o1.count('\n(')+ (1 if o1.startswith('(') else 0) != len(nodes): rec(('count',), (text, opts, o1))
run()
print(n, {k:v for k,v in fails.items()})
for k,v in sorted(examples.items(), key=repr)[:12]:
    print(k)
    for x in v: print('    ', repr(x)[:700])
