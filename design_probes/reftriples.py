"""Prototype recogniser for the triple conjunction (design probe).

Grammar over triple-mode tokens (SYMBOL may contain , and ^):
  Conj   <- Triple (Caret Triple)*        anything after a Triple that is not a caret-initial SYMBOL ends the parse
  Triple <- SYMBOL '(' SYMBOL Rest ')'
  the first SYMBOL inside the parentheses is split at its first comma: Source [',' Tail]
     Tail non-empty            -> target = Tail, next must be ')'
     comma present, Tail empty -> optional SYMBOL|STRING target
     no comma                  -> next token: ')'            -> no target
                                  SYMBOL ','                 -> optional SYMBOL|STRING target
                                  SYMBOL ',x'                -> target x
                                  other SYMBOL               -> reject at that token
  Caret: a SYMBOL '^' alone, or a '^' glued in front of the next role symbol (stripped)
"""
import reflex
from reflex import Reject, _eof

def ref_parse_triples(text):
    toks = reflex.scan(text, 'triple')
    n = len(toks); pos = 0
    def tok(p):
        if p >= n: raise _eof(toks)
        return toks[p]
    def expect(p, *types):
        t = tok(p)
        if t[0] not in types: raise Reject(t[2], t[3])
        return t
    triples = []; strip = False
    while True:
        role = expect(pos, 'SYMBOL')[1]; pos += 1
        if strip and role.startswith('^'): role = role[1:]
        if not role.startswith(':'): role = ':' + role
        expect(pos, 'LPAREN'); pos += 1
        first = expect(pos, 'SYMBOL')[1]; pos += 1
        source, comma, tail = first.partition(',')
        target = None
        if tail:
            target = tail
        elif comma:
            if pos < n and toks[pos][0] in ('SYMBOL', 'STRING'): target = toks[pos][1]; pos += 1
        else:
            if pos < n and toks[pos][0] == 'SYMBOL':
                t = toks[pos]
                if t[1] == ',':
                    pos += 1
                    if pos < n and toks[pos][0] in ('SYMBOL', 'STRING'): target = toks[pos][1]; pos += 1
                elif t[1].startswith(','):
                    target = t[1][1:]; pos += 1
                else:
                    raise Reject(t[2], t[3])
        expect(pos, 'RPAREN'); pos += 1
        triples.append((source, role, target))
        if pos < n and toks[pos][0] == 'SYMBOL' and toks[pos][1].startswith('^'):
            if toks[pos][1] == '^': strip = False; pos += 1
            else: strip = True
        else:
            return triples
