import logging, os
logging.disable(logging.CRITICAL)
from hypothesis import given, settings, seed, HealthCheck, strategies as st, Phase
import penman
from penman import layout
from penman.tree import Tree
from penman.model import Model
from gen import trees
model = Model()
def norm(triples, variables):
    out=[]
    for s,r,t in triples:
        if r != ':instance' and t in variables and model.is_role_inverted(r):
            s,r,t = model.invert((s,r,t))
        out.append((s,r,None if t is None else str(t)))
    return sorted(out, key=repr)
@seed(1)
@settings(max_examples=5000, deadline=None, database=None, suppress_health_check=list(HealthCheck))
@given(st.data())
def run(data):
    node = data.draw(trees(aligned=False, noconcept=False, missing=False, max_nodes=5))
    g = layout.interpret(Tree(node), model)
    if len(set(g.triples)) != len(g.triples): return
    if any(model.invert_role(model.invert_role(r)) != r for _,r,_ in g.triples if r != ':instance'): return
    top = data.draw(st.sampled_from(sorted(g.variables())))
    s = penman.encode(g, top=top, indent=None)
    g2 = penman.decode(s)
    assert norm(g2.triples, g2.variables()) == norm(g.triples, g.variables()), (penman.format(Tree(node), indent=None), top, s)
run()
