import itertools, sys, os, logging, collections, multiprocessing as mp
logging.disable(logging.CRITICAL)
import penman
from penman._lexer import lex, PENMAN_RE, TRIPLE_RE
from penman.exceptions import DecodeError
import reflex
ALPHA = os.environ.get('ALPHA', '()/:~"\\#,^.- \na1')
L = int(os.environ.get('L', '4'))
def check(s):
    bad = []
    # C08: lexer
    for mode, pat in (('graph', PENMAN_RE), ('triple', TRIPLE_RE)):
        mine = reflex.scan(s, mode)
        theirs = [(t.type, t.text, t.lineno, t.offset) for t in lex(s, pattern=pat)]
        if mine != theirs: bad.append(('lex-'+mode, s, mine, theirs))
    # C07 parse
    try:
        rn, rm = reflex.ref_parse(s); rres = ('ok', rn, rm)
    except reflex.Reject as r:
        rres = ('rej', r.lineno, r.offset)
    try:
        t = penman.parse(s); pres = ('ok', t.node, t.metadata)
    except DecodeError as e:
        pres = ('rej', e.lineno, e.offset)
    except Exception as e:
        pres = ('exc', type(e).__name__)
    if rres != pres: bad.append(('parse', s, rres, pres))
    # iterparse
    rt, rerr = reflex.ref_iterparse(s)
    pt = []; perr = None
    try:
        for t in penman.iterparse(s): pt.append((t.node, t.metadata))
    except DecodeError as e:
        perr = (e.lineno, e.offset)
    except Exception as e:
        perr = ('exc', type(e).__name__)
    rr = (rt, None if rerr is None else (rerr.lineno, rerr.offset))
    if rr != (pt, perr): bad.append(('iterparse', s, rr, (pt, perr)))
    return bad
def work(prefix):
    out = []; n = 0
    for l in range(0, L):
        for tup in itertools.product(ALPHA, repeat=l):
            s = prefix + ''.join(tup); n += 1
            out.extend(check(s))
    return n, out[:20], collections.Counter(b[0] for b in out)
if __name__ == '__main__':
    print(penman.__file__)
    with mp.Pool(16) as pool:
        res = pool.map(work, list(ALPHA))
    tot = sum(r[0] for r in res); cnt = collections.Counter()
    for r in res: cnt.update(r[2])
    print('strings', tot, dict(cnt))
    seen = set()
    for r in res:
        for b in r[1]:
            if b[0] not in seen or len(b[1]) <= 3:
                if (b[0]) in seen and len(seen) > 12: continue
                seen.add(b[0]); print(b[0], repr(b[1])); print('    ref  ', b[2]); print('    impl ', b[3])
