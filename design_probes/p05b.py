"""rearrange ordering oracle prototype (C05 second sentence)."""
import sys, logging, collections, os, random, re
logging.disable(logging.CRITICAL)
sys.path.insert(0, '/verif/design_probes')
from hypothesis import given, settings, seed, HealthCheck, strategies as st
import penman
from penman import layout
from penman.tree import Tree, is_atomic
from penman.model import Model
from penman.models.amr import model as amr
import gen
gen.ROLES[:] = [':ARG0',':ARG1',':op1',':op2',':op10',':op9',':mod',':polarity',':consist-of',':x2y10', ':x2y9', ':']
from gen import trees
print(penman.__file__)
def ref_defined(m, r): return any(re.fullmatch(p, r) for p in list(m.roles)+[m.top_role, m.concept_role])
def ref_alnum(r):
    i = len(r)
    while i > 0 and r[i-1].isdigit() and r[i-1].isascii(): i -= 1
    if i < len(r) and i > 0: return (r[:i], int(r[i:]))
    return (r, 0)
def ref_canon(m, r): return ((not ref_defined(m, r)) and r.endswith('-of'), ref_alnum(r))
fails = collections.Counter(); ex={}
def rec(k,e):
    fails[k]+=1
    if k not in ex or len(repr(e))<len(repr(ex[k])): ex[k]=e
def walk(a, b, key, refkey, af, vars_):
    (va, ba), (vb, bb) = a, b
    if va != vb: rec(('var',), (a,b)); return
    if sorted(map(repr, [(r, t if is_atomic(t) else t[0]) for r,t in ba])) != sorted(map(repr, [(r, t if is_atomic(t) else t[0]) for r,t in bb])): rec(('multiset',), (a,b)); return
    if ba and ba[0][0]=='/' and (not bb or bb[0] != ba[0]): rec(('concept-first',), (a,b))
    rest_a = ba[1:] if ba and ba[0][0]=='/' else ba
    rest_b = bb[1:] if ba and ba[0][0]=='/' else bb
    def k(br):
        r,t = br
        c1 = ((t in vars_) if is_atomic(t) else (t[0] in vars_)) if af else False
        return (c1, key(r))
    ks = [k(x) for x in rest_b]
    if any(ks[i] > ks[i+1] for i in range(len(ks)-1)): rec(('unsorted',), (a,b))
    # stability: equal keys keep relative order of original (compare by identity-free position lists)
    exp = sorted(rest_a, key=k)   # python sort is stable: this IS the spec "sorted by key, stable"
    if [ (r, t if is_atomic(t) else t[0]) for r,t in exp] != [(r, t if is_atomic(t) else t[0]) for r,t in rest_b]: rec(('stable',), (a,b))
    # independent key agreement for alignment-free roles
    if refkey is not None and all('~' not in r for r,_ in rest_b):
        rk = [((t in vars_) if is_atomic(t) else (t[0] in vars_)) if af else False for r,t in rest_b]
        ks2 = [(c, refkey(r)) for c,(r,t) in zip(rk, rest_b)]
        if any(ks2[i] > ks2[i+1] for i in range(len(ks2)-1)): rec(('refkey',), (a,b,ks2))
    # recurse: match children by var
    ca = {t[0]: t for r,t in ba if not is_atomic(t)}; cb = {t[0]: t for r,t in bb if not is_atomic(t)}
    for v in ca:
        if v in cb: walk(ca[v], cb[v], key, refkey, af, vars_)
n=[0]
@seed(int(os.environ.get('S','1')))
@settings(max_examples=int(os.environ.get('N','4000')), deadline=None, database=None, suppress_health_check=list(HealthCheck))
@given(trees(), st.sampled_from(['default','amr']), st.sampled_from(['original','alphanumeric','canonical','none']), st.booleans())
def run(node, mname, kname, af):
    m = {'default': Model(), 'amr': amr}[mname]
    t = Tree(node)
    if len({v for v,_ in t.nodes()}) != len(t.nodes()): return
    n[0]+=1
    key = None if kname=='none' else getattr(m, kname+'_order')
    refkey = {'original': lambda r: True, 'alphanumeric': ref_alnum, 'canonical': lambda r: ref_canon(m, r), 'none': lambda r: True}[kname]
    t2 = penman.parse(penman.format(t, indent=None))
    layout.rearrange(t2, key=key, attributes_first=af)
    vars_ = {v for v,_ in t.nodes()}
    walk(t.node, t2.node, (key or (lambda r: True)), refkey, af, vars_)
run()
print(n, dict(fails))
for k,v in ex.items():
    print(k)
    for x in v: print('    ', repr(x)[:400])
