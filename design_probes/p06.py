import sys, logging, collections, os
logging.disable(logging.CRITICAL)
from hypothesis import given, settings, seed, HealthCheck, strategies as st
import penman
from penman import layout
from penman.graph import Graph
from penman.model import Model
from penman.models.amr import model as amr
from penman.exceptions import LayoutError
print(penman.__file__)
V = ['a','b','c','d']
src = st.sampled_from(V)
role = st.sampled_from([':instance','instance',':ARG0',':ARG0-of',':mod',':',  '', 'r', ':r-of-of', ':consist-of'])
tgt = st.one_of(st.sampled_from(V), st.sampled_from(['x','"s"', '5']), st.none(), st.sampled_from([0, 1, -1.5, 0.0]))
triple = st.tuples(src, role, tgt)
marker = st.one_of(st.sampled_from(V).map(layout.Push), st.just(layout.POP))
fails = collections.Counter(); examples = {}; n=collections.Counter()
def rec(k, ex):
    fails[k]+=1
    cur=examples.get(k)
    if cur is None or len(repr(ex))<len(repr(cur)): examples[k]=ex
def connected(g, top):
    vs = g.variables() | ({top} if False else set())
    adj = {v:set() for v in vs}
    for s,r,t in g.triples:
        if r != ':instance' and t in vs:
            adj[s].add(t); adj[t].add(s)
    seen=set(); ag=[top]
    while ag:
        c=ag.pop()
        if c in seen: continue
        seen.add(c); ag.extend(adj[c]-seen)
    return seen==vs
@seed(int(os.environ.get('S','1')))
@settings(max_examples=int(os.environ.get('N','5000')), deadline=None, database=None, suppress_health_check=list(HealthCheck))
@given(st.lists(triple, max_size=7), st.one_of(st.none(), st.sampled_from(V+['zz'])), st.one_of(st.none(), st.sampled_from(V+['zz'])), st.data())
def run(triples, gtop, reqtop, data):
    epidata = {}
    if triples and data.draw(st.booleans()):
        for _ in range(data.draw(st.integers(0,4))):
            t = data.draw(st.sampled_from(triples)); t=(t[0], t[1] if t[1].startswith(':') else ':'+t[1], t[2])
            mk = data.draw(marker)
            epidata.setdefault(t, []).append(mk)
    try:
        g = Graph(triples, top=gtop, epidata=epidata)
    except Exception as e:
        rec(('graph-exc', type(e).__name__), (triples, gtop)); return
    model = Model()
    if any(isinstance(m, layout.Push) and m.variable not in g.variables() for ms in epidata.values() for m in ms): return
    top = reqtop if reqtop is not None else g.top
    vs = g.variables()
    should_fail = (top not in vs) or not connected(g, top) if (top is not None or triples) else False
    n['should_fail' if should_fail else 'should_ok']+=1
    try:
        s = penman.encode(g, top=reqtop, model=model, indent=None)
        ok=True
    except LayoutError as e:
        ok=False
    except Exception as e:
        rec(('other-exc', type(e).__name__), (triples, gtop, reqtop, epidata, repr(e))); return
    if ok and should_fail: rec(('no-error', 'empty' if not triples else 'nonempty'), (triples, gtop, reqtop, epidata, s))
    if not ok and not should_fail: rec(('spurious-error',), (triples, gtop, reqtop, epidata))
run()
print(dict(n), dict(fails))
for k,v in examples.items():
    print(k); 
    for x in v: print('    ', repr(x)[:500])
