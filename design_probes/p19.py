import logging, collections, os, re
logging.disable(logging.CRITICAL)
from hypothesis import given, settings, seed, HealthCheck, strategies as st
import penman
print(penman.__file__)
BLANK=' \t\r\n\v\f'
TX = BLANK+'"()/:~'
namechar = st.one_of(st.sampled_from('abcxyz019-_.^,#\\+*'), st.characters(exclude_categories=['Cs'], exclude_characters=TX))
sym = st.text(namechar, min_size=1, max_size=5).filter(lambda s: not s.startswith('#'))
src = sym.filter(lambda s: ',' not in s)
strchar = st.one_of(st.sampled_from('ab (),^/:~#'), st.characters(exclude_categories=['Cs'], exclude_characters='"\\\n\r\f\v\x0b\x0c\x1c\x1d\x1e\x85  '))
string = st.lists(st.one_of(strchar, st.sampled_from(['\\"','\\\\','\\n'])), max_size=6).map(lambda ps: '"'+''.join(ps)+'"')
role = sym.map(lambda s: ':'+s)
triple = st.tuples(src, role, st.one_of(sym, string))
fails = collections.Counter(); ex={}
def rec(k,e):
    fails[k]+=1
    if k not in ex or len(repr(e))<len(repr(ex[k])): ex[k]=e
n=[0]
@seed(int(os.environ.get('S','1')))
@settings(max_examples=int(os.environ.get('N','5000')), deadline=None, database=None, suppress_health_check=list(HealthCheck))
@given(st.lists(triple, min_size=1, max_size=5), st.booleans(), st.data())
def run(ts, indent, data):
    n[0]+=1
    s = penman.format_triples(ts, indent=indent)
    try:
        back = penman.parse_triples(s)
    except Exception as e:
        rec(('exc', type(e).__name__), (ts, s, str(e)[:80])); return
    if back != ts: rec(('diff',), (ts, s, back)); return
    # variants: rebuild by hand
    parts=[]
    for (a,r,b) in ts:
        cv = data.draw(st.sampled_from([',', ', ', ' ,', ' , ']))
        parts.append(f'{r[1:]}({a}{cv}{b})')
    out = parts[0]
    for p in parts[1:]:
        out += data.draw(st.sampled_from(['^', ' ^', ' ^ ', ' ^\n'])) + p
    try:
        back2 = penman.parse_triples(out)
    except Exception as e:
        rec(('vexc', type(e).__name__), (ts, out, str(e)[:80])); return
    if back2 != ts: rec(('vdiff',), (ts, out, back2))
run()
print(n, dict(fails))
for k,v in ex.items():
    print(k)
    for x in v: print('    ', repr(x)[:300])
