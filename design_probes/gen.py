# throwaway probing generators
from hypothesis import strategies as st
import re

VARS = ['a','b','c','d','e','x1','_','_2','i']
ROLES = [':ARG0',':ARG1',':ARG2',':mod',':domain',':op1',':op2',':op10',':polarity',':quant',':',':consist-of',':r',':time',':location',':part']
CONCEPTS = ['alpha','beta','b','i','"a string"','1','have-mod-91','x-01','"a~b"','c']
CONSTS = ['-','5','1.5','"str"','"a b(c)"','sym','+','"~1"','imperative']
ALN = ['~1','~e.2','~e.3,4','~x5']

def fy(draw, xs):
    """Fisher-Yates shuffle from integer draws (st.permutations never runs under fuzz_one_input)."""
    xs = list(xs)
    for i in range(len(xs) - 1, 0, -1):
        j = draw(st.integers(0, i))
        xs[i], xs[j] = xs[j], xs[i]
    return xs

@st.composite
def trees(draw, max_nodes=8, aligned=True, inv=True, noconcept=True, attrs=True, missing=True):
    n = draw(st.integers(1, max_nodes))
    vs = fy(draw, VARS)[:n]
    # build random tree shape: parent of node k is random earlier node
    parents = [None] + [draw(st.integers(0, k-1)) for k in range(1, n)]
    children = {k: [] for k in range(n)}
    for k in range(1, n):
        children[parents[k]].append(k)
    used = set()
    def aln():
        if aligned and draw(st.integers(0,4)) == 0:
            return draw(st.sampled_from(ALN))
        return ''
    def role(edge):
        r = draw(st.sampled_from(ROLES))
        if edge and inv and draw(st.integers(0,2)) == 0:
            r = r + '-of'
        return r
    def build(k):
        var = vs[k]
        branches = []
        c = draw(st.integers(0, 9))
        if not noconcept or c > 1:
            branches.append(('/', draw(st.sampled_from(CONCEPTS)) + aln()))
        elif c == 1 and missing:
            branches.append(('/', None))
        items = [('child', ch) for ch in children[k]]
        nextra = draw(st.integers(0, 3))
        for _ in range(nextra):
            kind = draw(st.sampled_from(['attr','reent','attr','miss'] ))
            items.append((kind, None))
        items = fy(draw, items)
        for kind, ch in items:
            if kind == 'child':
                branches.append((role(True) + aln(), build(ch)))
            elif kind == 'attr' and attrs:
                r = role(False)
                if inv and draw(st.integers(0,5)) == 0: r += '-of'
                branches.append((r + aln(), draw(st.sampled_from(CONSTS)) + aln()))
            elif kind == 'reent':
                tgt = draw(st.sampled_from(vs))
                branches.append((role(True) + aln(), tgt + aln()))
            elif kind == 'miss' and missing:
                branches.append((role(False) + aln(), None))
        return (var, branches)
    return build(0)
