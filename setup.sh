#!/bin/bash
# offline set-up: hypothesis into /venv (if missing), atheris into /verif/.deps (thorough-tier fuzzing only)
here="$(cd "$(dirname "${BASH_SOURCE[0]}")" && pwd)"
W=/opt/veriftools/wheels
/venv/bin/python -c 'import hypothesis' 2>/dev/null || \
  /venv/bin/pip install -q --no-index --find-links $W hypothesis || exit 1
mkdir -p "$here/.deps" "$here/out" "$here/evidence"
PYTHONPATH="$here/.deps" /venv/bin/python -c 'import atheris' 2>/dev/null || \
  /venv/bin/pip install -q --no-index --find-links $W --target "$here/.deps" atheris || \
  echo "note: atheris not installed; coverage-guided stages will be skipped"
/venv/bin/python -c 'import hypothesis; print("hypothesis", hypothesis.__version__)'
exit 0
