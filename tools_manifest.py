"""Regenerates MANIFEST.json from the property modules present in pv/props (run by hand after adding a check)."""
import importlib, json, os, sys
sys.path.insert(0, os.path.dirname(os.path.abspath(__file__)))
ROOT = os.path.dirname(os.path.abspath(__file__))
props = [json.loads(l) for l in open(os.path.join(ROOT, 'properties.jsonl'))]
LEVEL = {
 'C01': ('Exploration: every generated tree is written under all 14 (indent, compact) pairs and re-parsed (tree and metadata equality, identical token streams under the reference scanner, fixed point); accepted short strings are enumerated exhaustively; a universal claim over trees x options can only be sampled, so the level is exploration with measured coverage.', 'Trusts pv/ref/lex.py for token-stream comparison and the tree/metadata generators; penman.parse is used as the inverse of penman.format (that is the property).'),
 'C02': ('Exploration with a bounded-exhaustive core: every well-formed tree with <= 3/4 branches over a small alphabet plus random larger trees x five model families; oracle = identity of configure o interpret (up to "(a /)") and of encode o decode on text.', 'Well-formedness is decided by the reference interpreter pv/ref/interp.py; text is produced with penman.format (C01).'),
 'C03': ('Exploration with a bounded-exhaustive core: small graphs x every top x all permutations of the triple list, random decoded and hand-built graphs x every top; oracle = multiset equality of triples up to one deinversion, same variables, requested top; coverage-guided structured fuzzing in the thorough tier.', 'Content comparison by pv/ref/graphm.py and the role algebra pv/ref/role.py; no-op model out of scope for re-topping.'),
 'C04': ('Exploration: differential against an independently written interpreter of the documented reading (top, variables, ordered triples, alignments) over arbitrary, also ill-formed, trees x models, plus all small trees.', 'Trusts pv/ref/interp.py as the documented reading (written from docs/notation.rst, docs/structures.rst).'),
 'C05': ('Exploration: metamorphic (content unchanged by rearrange / reconfigure / new top from every variable) plus exact order oracle (stable sort under an independent role key).', 'Trusts the independent sort keys in pv/ref/role.py; random keys only get the content/multiset clauses.'),
 'C06': ('Exploration over edit histories: marker edit scripts and a rule-based state machine on decoded graphs (content preserved from every top), arbitrary triple lists against a reference connectivity model (LayoutError iff disconnected or top not a variable, no other exception); coverage-guided structured fuzzing in the thorough tier.', 'Trusts the connectivity reference in pv/ref/graphm.py; Push(non-variable target) is the documented node-creating marker and is not generated.'),
 'C07': ('Exploration with large bounded-exhaustive cores (all strings <= 5/6 over 16 symbols, token sequences, string atoms) plus grammar-based random texts with mutations and nesting to 200 and coverage-guided byte fuzzing; differential against an independent recogniser incl. error line/column.', 'Trusts pv/ref/lex.py + pv/ref/parse.py as the documented grammar; the conjunction grammar is specification by example.'),
 'C08': ('Exploration with a bounded-exhaustive core (all strings <= 4/5 over 24 symbols incl. every blank and exotic separator), both patterns, str and list-of-lines; tiling invariants plus token-by-token differential against a hand-written scanner.', 'Trusts pv/ref/lex.py; inside strings every character up to the end of line is content.'),
 'C09': ('Exploration: generated streams through seven containers x three terminators x three separators must yield the graphs that were written (interpreted directly from the generated trees), dumps/loads and dump/load round trips.', 'Files are real files in a per-run directory; StringIO in universal-newline mode.'),
 'C10': ('Exploration: differential against a reference relabelling and structural-rename oracle on tree and interpretation.', 'Formats contain {i} or {j} (usage precondition of the collision loop).'),
 'C11': ('Exploration: round-trip oracle on generated graphs inside the stated precondition (computed from the table), invariants of the reified graph, targeted generator for protected nodes.', 'Role unambiguity is computed from the table by pv/props/c11.py; AMR :superset excluded by that rule.'),
 'C12': ('Exploration over programs: all transformation sequences of length <= 3 (by index) and sampled longer ones on generated graphs incl. reified nodes written in the text; invariants after every step plus inverse oracles.', 'Well-formedness/connectivity judged by the reference graph model.'),
 'C13': ('Exploration, exhaustive over base + k x "-of" for every role of the shipped models; algebraic laws plus differential against a reference role algebra; random tables/roles/trees.', 'Random tables obey the two restrictions stated in DESIGN section 3; canonical form defined as the parity-preserving double-inversion fixed point.'),
 'C14': ('Exploration with a bounded-exhaustive core: differential of node_contexts / get_pushed_variable / appears_inverted against layout facts recorded by the reference interpreter.', 'Layout facts come from pv/ref/interp.py; marker-free graphs only get the totality clauses.'),
 'C15': ('Model-based exploration: exhaustive over all lists of <= 3 triples x tops for the queries, a list/set model for | |= - -= driven by random histories and a Hypothesis rule-based state machine.', 'Operands of set operations are duplicate-free; markers of shared triples not asserted.'),
 'C16': ('Exploration: differential of Model.errors against a reference checker on arbitrary triple lists; in-process runs of the command on generated multi-file inputs (1-in-50 cross-checked as subprocess) for exit status and error metadata.', 'Reference: per-pattern full match, single -of strip, undirected reachability over edges.'),
 'C17': ('Exploration over call histories (rule-based state machine) with by-value snapshots of all shared arguments, repeat/earlier-call equality, re-run on pickled arguments and in fresh interpreters under other hash seeds (digest comparison), CLI output bytes across hash seeds.', 'No threads in the library: schedules reduce to call order, process boundary and hash seed.'),
 'C18': ('Exploration with bounded-exhaustive cores (all strings <= 3/4 over 19 symbols, all atom texts <= 4/5 over 17 symbols) plus random text incl. surrogates; round-trip, one-STRING-token (real and reference lexer) and JSON-number-grammar oracles.', 'Reference number grammar = JSON; atoms contain no blanks.'),
 'C19': ('Exploration: round trip parse_triples o format_triples and metamorphic re-spelling under every documented spacing variant.', 'Non-empty lists; sources without comma; text targets.'),
 'C20': ('Exploration: differential of the command (in-process, 1-in-50 as subprocess) against the documented pipeline as library calls, plus metamorphic clauses (formatting never changes content, fixed point, identity without options).', 'The reference pipeline calls the library functions (decided by C01-C19): this check decides penman/__main__.py. Open findings F15 and F21 are reported as KNOWN-FINDING.'),
}
checks, na = [], []
for p in props:
    pid = p['id']
    path = os.path.join(ROOT, 'pv', 'props', pid.lower() + '.py')
    if not os.path.exists(path):
        na.append({'property_id': pid, 'reason': 'check not built yet (build in progress; see DESIGN.md section 5 for the planned generator and oracle)'})
        continue
    src = open(path, encoding='utf-8').read()
    meta = {}
    import ast
    tree = ast.parse(src)
    for node in tree.body:
        if isinstance(node, ast.Assign) and len(node.targets) == 1 and isinstance(node.targets[0], ast.Name):
            if node.targets[0].id in ('TECHNIQUE', 'LEVEL_TEXT', 'LEVEL_NOTE', 'DESIGN_REF'):
                meta[node.targets[0].id] = ast.literal_eval(node.value)
    checks.append({
        'property_id': pid,
        'quick_cmd': './check %s --tier quick' % pid,
        'thorough_cmd': './check %s --tier thorough' % pid,
        'evidence_file': 'evidence/%s.json' % pid,
        'replay_cmd_template': './check %s --replay {path}' % pid,
        'engine': 'pv',
        'level_claimed': {
            'category': 'exploration',
            'text': meta.get('LEVEL_TEXT', LEVEL.get(pid, ('generated-input search against an explicit oracle; held on everything explored', ''))[0]),
            'design_ref': meta.get('DESIGN_REF', 'DESIGN.md section 5, ' + pid),
        },
        'level_note': meta.get('LEVEL_NOTE', (LEVEL.get(pid, ('', ''))[1] + ' No proof of absence: held on everything explored.').strip()),
        'technique': meta.get('TECHNIQUE', 'property-based testing (Hypothesis) + bounded-exhaustive enumeration against a reference oracle'),
    })
m = {
    'version': 1,
    'setup_cmd': './setup.sh',
    'hooks': {
        'guard': 'PENMAN_VERIF',
        'enable': 'no hooks or instrumentation were needed: every property is observable through the public API, the CLI stdout and exit status; ./check exports PENMAN_VERIF=1 for uniformity and imports penman from /repo\'s working tree (PYTHONPATH)',
        'baseline_off_cmd': 'cd /repo && /venv/bin/python -m pytest -ra -q -p no:cacheprovider --timeout=900 --continue-on-collection-errors',
        'source_commits': [],
        'add_only': True,
    },
    'engines': [{
        'name': 'pv', 'path': 'pv/',
        'serves_properties': [c['property_id'] for c in checks],
        'kind_free_text': 'property-based testing and fuzzing: Hypothesis strategies / rule-based state machines, bounded-exhaustive enumeration over small alphabets on 16 processes, atheris coverage-guided stages; every case is judged by an explicit oracle (reference model, round-trip, differential, metamorphic relation)',
    }],
    'checks': checks,
    'not_applicable': na,
    'notes': 'Each check: committed replays first, then generated search; failures are bucketed, shrunk and written to out/replays/<id>/ as plain JSON; ./check <id> --replay <file> re-runs the oracle without Hypothesis. Exit 2 + HARNESS-ERROR means the machinery failed, never a violation. Known findings: known_findings.json.',
}
json.dump(m, open(os.path.join(ROOT, 'MANIFEST.json'), 'w'), indent=1)
print('checks:', [c['property_id'] for c in checks], 'not_applicable:', len(na))
