"""Regenerates MANIFEST.json from the property modules present in pv/props (run by hand after adding a check)."""
import importlib, json, os, sys
sys.path.insert(0, os.path.dirname(os.path.abspath(__file__)))
ROOT = os.path.dirname(os.path.abspath(__file__))
props = [json.loads(l) for l in open(os.path.join(ROOT, 'properties.jsonl'))]
checks, na = [], []
for p in props:
    pid = p['id']
    path = os.path.join(ROOT, 'pv', 'props', pid.lower() + '.py')
    if not os.path.exists(path):
        na.append({'property_id': pid, 'reason': 'check not built yet (build in progress; see DESIGN.md section 5 for the planned generator and oracle)'})
        continue
    src = open(path, encoding='utf-8').read()
    meta = {}
    import ast
    tree = ast.parse(src)
    for node in tree.body:
        if isinstance(node, ast.Assign) and len(node.targets) == 1 and isinstance(node.targets[0], ast.Name):
            if node.targets[0].id in ('TECHNIQUE', 'LEVEL_TEXT', 'LEVEL_NOTE', 'DESIGN_REF'):
                meta[node.targets[0].id] = ast.literal_eval(node.value)
    checks.append({
        'property_id': pid,
        'quick_cmd': './check %s --tier quick' % pid,
        'thorough_cmd': './check %s --tier thorough' % pid,
        'evidence_file': 'evidence/%s.json' % pid,
        'replay_cmd_template': './check %s --replay {path}' % pid,
        'engine': 'pv',
        'level_claimed': {
            'category': 'exploration',
            'text': meta.get('LEVEL_TEXT', 'generated-input search against an explicit oracle; held on everything explored'),
            'design_ref': meta.get('DESIGN_REF', 'DESIGN.md section 5, ' + pid),
        },
        'level_note': meta.get('LEVEL_NOTE', 'trusts the reference models in pv/ref and the generators in pv/gen; no proof of absence'),
        'technique': meta.get('TECHNIQUE', 'property-based testing (Hypothesis) + bounded-exhaustive enumeration against a reference oracle'),
    })
m = {
    'version': 1,
    'setup_cmd': './setup.sh',
    'hooks': {
        'guard': 'PENMAN_VERIF',
        'enable': 'no hooks or instrumentation were needed: every property is observable through the public API, the CLI stdout and exit status; ./check exports PENMAN_VERIF=1 for uniformity and imports penman from /repo\'s working tree (PYTHONPATH)',
        'baseline_off_cmd': 'cd /repo && /venv/bin/python -m pytest -ra -q -p no:cacheprovider --timeout=900 --continue-on-collection-errors',
        'source_commits': [],
        'add_only': True,
    },
    'engines': [{
        'name': 'pv', 'path': 'pv/',
        'serves_properties': [c['property_id'] for c in checks],
        'kind_free_text': 'property-based testing and fuzzing: Hypothesis strategies / rule-based state machines, bounded-exhaustive enumeration over small alphabets on 16 processes, atheris coverage-guided stages; every case is judged by an explicit oracle (reference model, round-trip, differential, metamorphic relation)',
    }],
    'checks': checks,
    'not_applicable': na,
    'notes': 'Each check: committed replays first, then generated search; failures are bucketed, shrunk and written to out/replays/<id>/ as plain JSON; ./check <id> --replay <file> re-runs the oracle without Hypothesis. Exit 2 + HARNESS-ERROR means the machinery failed, never a violation. Known findings: known_findings.json.',
}
json.dump(m, open(os.path.join(ROOT, 'MANIFEST.json'), 'w'), indent=1)
print('checks:', [c['property_id'] for c in checks], 'not_applicable:', len(na))
