"""Writes the committed regression replays for the repaired findings (run by hand; files are committed)."""
import json, os
ROOT = os.path.dirname(os.path.abspath(__file__))
D = {'name': 'default'}; AMR = {'name': 'amr'}; NOOP = {'name': 'noop'}
def T(*a): return list(a)
R = []
def add(pid, fid, name, case, detail):
    R.append((pid, fid, name, case, detail))

# F1
t_f1 = ['a', [[':ROLE', ['b', [[':ROLE', 'a']]]]]]
add('C02', 'F1', 'F1-conceptless-node-with-edge', {'tree': t_f1, 'model': D, 'opts': [[None, False], [-1, True]]}, '(a :ROLE (b :ROLE a)) re-encoded as (a :ROLE (b) :ROLE-of b)')
add('C14', 'F1', 'F1-node-contexts', {'tree': ['a', [[':ARG0', ['b', [[':ARG1', 'c']]]]]], 'model': D}, 'node_contexts(decode("(a :ARG0 (b :ARG1 c))")) ended in None')
# F2
add('C01', 'F2', 'F2-u2028-in-metadata', {'k': 'tree', 'tree': ['a', [['/', 'b']]], 'meta': {'snt': 'foo bar'}}, 'metadata value with U+2028 was split into two lines on re-parse')
add('C01', 'F2', 'F2-vt-in-string', {'k': 'tree', 'tree': ['a', [[':r', '"x\x0cy\x85z"']]], 'meta': {}}, 'string containing FF / U+0085 was split')
add('C08', 'F2', 'F2-line-separators', {'s': 'a b\x0c(\x85\x1c)'}, 'str.splitlines() split at U+2028/FF/U+0085/U+001C')
add('C09', 'F2', 'F2-loads-vs-load', {'graphs': [{'tree': ['a', [['/', 'b']]], 'meta': {'snt': 'foo bar', 'k': 'x\x85y'}}], 'model': D, 'term': 'LF', 'sep': 'blank', 'indent': -1, 'compact': False, 'final_newline': True}, 'loads() raised while load() of the same text succeeded')
add('C07', 'F2', 'F2-error-position', {'s': '\x85#a'}, 'line number of the error counted U+0085 as a line end')
# F3
add('C16', 'F3', 'F3-bad-then-good-file', {'k': 'tool', 'sources': [[['s', [['/', 'swim-01'], [':stroke', ['b', [['/', 'backstroke']]]]]]], [['s', [['/', 'swim-01'], [':ARG0', ['i', [['/', 'i']]]]]]]], 'stdin': False, 'model': AMR, 'extra': [], 'subprocess': True}, 'penman --amr --check bad.txt good.txt exited 0')
# F5
add('C03', 'F5', 'F5-zero-constant', {'k': 'built', 'g': {'triples': [['a', ':instance', 'x'], ['a', ':quant', 0], ['a', ':value', 0.0]], 'top': None}, 'model': D}, '(a :quant 0) encoded as (a / x :quant)')
add('C03', 'F5', 'F5-zero-concept', {'k': 'built', 'g': {'triples': [['a', ':instance', 0]], 'top': None}, 'model': D}, 'concept 0 dropped')
# F6
add('C08', 'F6', 'F6-uppercase-alignment-prefix', {'s': '(a / b~E.1 :r~Z2 c)'}, '~E.1 not lexed as ALIGNMENT')
add('C07', 'F6', 'F6-uppercase-alignment-prefix', {'s': '(a / b~E.1)'}, '(a / b~E.1) rejected')
add('C01', 'F6', 'F6-uppercase-alignment-prefix', {'k': 'tree', 'tree': ['a', [['/', 'b~E.1'], [':r~Z.2', 'c~X3']]], 'meta': {}}, 'formatted tree with ~E.1 could not be re-parsed')
# F7
add('C10', 'F7', 'F7-aligned-reentrancy', {'tree': ['v1', [['/', 'i'], [':ARG0', 'v1~e.5']]], 'model': D, 'fmt': '{prefix}{j}'}, '(v1 / i :ARG0 v1~e.5) relabelled to (i / i :ARG0 v1~e.5)')
# F8
add('C19', 'F8', 'F8-string-target', {'triples': [['a', ':instance', '"q"'], ['a', ':x', '"q r, (s) ^ t"']], 'choices': [0, 1, 2, 3, 4]}, 'parse_triples(\'instance(a, "q")\') raised')
# F9
add('C12', 'F9', 'F9-marker-free-graph', {'src': 'built', 'g': {'triples': [['a', ':instance', 'x'], ['a', ':mod', '7'], ['a', ':mod', 'b'], ['b', ':instance', 'y']], 'top': None}, 'model': AMR, 'program': ['reify_edges', 'dereify_edges', 'reify_attributes']}, 'KeyError for any triple without a marker entry')
add('C14', 'F9', 'F9-diagnostics-markerless', {'tree': ['a', [['/', 'x'], [':mod', ['b', [['/', 'y']]]]]], 'model': D, 'strip': True}, 'KeyError in node_contexts/get_pushed_variable/appears_inverted')
add('C11', 'F9', 'F9-reify-markerless', {'k': 'rt', 'tree': ['a', [['/', 'x'], [':mod', '7'], [':location', ['b', [['/', 'y']]]]]], 'model': AMR, 'strip': True, 'opts': [[None, False]]}, 'reify_edges raised KeyError on a marker-free graph')
# F10
add('C07', 'F10', 'F10-missing-comma', {'s': 'role(a b)', 'k': 'triples'}, 'parse_triples("role(a b)") returned [(a, :role, None)]')
# F11
add('C04', 'F11', 'F11-noop-reentrancy', {'tree': ['a', [[':R', ['b', []]], [':R-of', 'b']]], 'model': NOOP, 'text': True}, 'no-op model deinverted the re-entrancy :R-of b')
# F12
add('C12', 'F12', 'F12-explicit-top', {'src': 'tree', 'tree': ['a', [['/', 'x'], [':ARG0', ['b', [['/', 'y']]]]]], 'model': AMR, 'program': ['reify_attributes', 'indicate_branches', 'reify_edges'], 'strip': False, 'top': 1}, 'transforms reset an explicit top')
# F13
add('C20', 'F13', 'F13-reconfigure-model', {'sources': [[{'tree': ['a', [['/', 'A'], [':consist-of-of', ['b', [['/', 'B']]]]]], 'meta': {}}]], 'model': AMR, 'opts': {'reconf': ['original']}, 'stdin': True, 'in_indent': -1, 'alt_indent': 'no', 'subprocess': False}, '--amr --reconfigure configured with the default model')
# F14
add('C03', 'F14', 'F14-retop-with-markers', {'k': 'tree', 'tree': ['a', [[':r', 'b'], [':r', 'k'], [':s', ['b', []]]]], 'model': D, 'perm': None, 'strip': False}, "encode(decode('(a :r b :r k :s (b))'), top='b') defined b twice")
add('C06', 'F14', 'F14-retop-with-markers', {'k': 'edit', 'tree': ['b', [['/', 'B'], [':ARG1-of', 'a'], [':x', '-'], [':ARG0', ['a', [['/', 'A']]]]]], 'model': D, 'ops': [['top', 0]]}, 'duplicate node definition when re-topping')
add('C05', 'F14', 'F14-new-top', {'k': 'reconf', 'tree': ['b', [['/', 'B'], [':ARG1-of', 'a'], [':x', '-'], [':ARG0', ['a', [['/', 'A']]]]]], 'model': D, 'key': 'none', 'rseed': 0}, 'configure(g, top=a) defined a twice')
# F16
add('C06', 'F16', 'F16-empty-graph-unknown-top', {'k': 'arb', 'triples': [], 'gtop': None, 'reqtop': 'a', 'epi': [], 'model': D}, "encode(Graph([]), top='a') returned '()'")
add('C06', 'F16', 'F16-unplaced-top-variable', {'k': 'arb', 'triples': [['d', ':r', 1]], 'gtop': 'b', 'reqtop': 'd', 'epi': [], 'model': D}, 'explicit top b silently lost')
# F17
add('C12', 'F17', 'F17-dereify-constant-source', {'src': 'tree', 'tree': ['a', [['/', 'x'], [':ARG2-of', ['_', [['/', 'have-mod-91'], [':ARG1', '7']]]]]], 'model': AMR, 'program': ['dereify_edges'], 'strip': False}, "dereify_edges produced ('7', ':mod', 'a')")
add('C12', 'F17', 'F17-superset-roundtrip', {'src': 'tree', 'tree': ['a', [['/', 'x'], [':superset', '7']]], 'model': AMR, 'program': ['reify_edges', 'dereify_edges'], 'strip': False}, ':superset 7 reified and dereified to a triple with source 7')
# F18
add('C09', 'F18', 'F18-crlf-lines-valueless-key', {'graphs': [{'tree': ['i', [['/', 'x-01']]], 'meta': {'z': ''}}], 'model': D, 'term': 'CRLF', 'sep': 'blank', 'indent': -1, 'compact': False, 'final_newline': True}, "key 'z\\r' from lines with terminators")
add('C07', 'F18', 'F18-crlf-lines-valueless-key', {'s': '# ::z\r\n(i / x-01)\r\n'}, "iterparse(lines with CRLF) gave key 'z\\r'")
# F19
add('C05', 'F19', 'F19-reconfigure-implicit-top', {'k': 'built', 'g': {'triples': [['a', ':instance', 'x'], ['a', ':mod', 'b'], ['b', ':instance', 'y'], ['b', ':ARG0', 'a']], 'top': None}, 'model': D, 'key': 'canonical', 'rseed': 0}, 'reconfigure(key=canonical_order) moved the implicit top from a to b')
# F20
add('C16', 'F20', 'F20-concept-spelled-like-variable', {'k': 'lib', 'triples': [['d', ':instance', 'c'], ['c', ':condition', 'c']], 'top': None, 'model': AMR}, "Model.errors() treated d's concept 'c' as an edge to node c")

for pid, fid, name, case, detail in R:
    d = os.path.join(ROOT, 'replays', pid)
    os.makedirs(d, exist_ok=True)
    with open(os.path.join(d, name + '.json'), 'w', encoding='utf-8') as f:
        json.dump({'property': pid, 'fixed_finding': fid, 'detail': detail, 'case': case}, f, ensure_ascii=True, indent=1)
print(len(R), 'replays written')
