#!/bin/bash
# convenience: run every registered quick (or thorough) check in sequence and summarise
tier=${1:-quick}
for i in $(seq -w 1 20); do
  s=$(date +%s.%N)
  out=$(./check C$i --tier $tier 2>&1); rc=$?
  e=$(date +%s.%N)
  printf "C%s rc=%d %.1fs  %s\n" $i $rc $(echo "$e - $s" | bc) "$(echo "$out" | grep -E 'tier=' | tail -1)"
  echo "$out" | grep -E "VIOLATION|HARNESS|KNOWN-FINDING" | cut -c1-160
done
