"""Rewrites non-ASCII characters in pv/**/*.py as \\u escapes (invisible separators must never sit raw in source)."""
import glob, os
ROOT = os.path.dirname(os.path.abspath(__file__))
for p in glob.glob(os.path.join(ROOT, 'pv', '**', '*.py'), recursive=True):
    s = open(p, encoding='utf-8').read()
    if any(ord(c) > 127 for c in s):
        out = ''.join(c if ord(c) < 128 else ('\\u%04x' % ord(c) if ord(c) < 0x10000 else '\\U%08x' % ord(c)) for c in s)
        open(p, 'w', encoding='utf-8').write(out)
        print('escaped', os.path.relpath(p, ROOT))
